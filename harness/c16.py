"""C16 -- flatten/unflatten of nested dicts and NNX State conversions are inverses."""
import warnings

from flax import traverse_util as TU
from flax.core import FrozenDict, freeze
from flax.nnx import traversals as NT
from flax.nnx import statelib as SL
from flax import nnx

from harness.common import qualnames
from vf.ob import Ob
from vf.xh import I, B, Reject, pick

warnings.simplefilter('ignore')

# ------------------------------------------------------------------ tree shapes
# root dict: two slots keyed (K0, 'b'); each slot: 0 absent 1 leaf 2 {} 3 dict with
# two sub-slots keyed ('a', 'c'); sub-slot: 0 absent 1 leaf 2 {} 3 {'x': leaf}
# 4 {'x': {}}.  K0 is drawn symbolically from KPOOL (contains the separator).
KPOOL = ['a', 'b', '0', '_p', 'w_', 'a/c', '/', '']    # '0': purely numeric; '_p' /
# 'w_' begin / end with a character of the multi-character separator '__'


def _sub(kind, leaf):
  return pick([None, lambda: leaf, lambda: {}, lambda: {'x': leaf + 1},
               lambda: {'x': {}}], kind)


def build(r0, r1, s00, s01, s10, s11, k0, v):
  """returns a fresh nested dict (plain dicts) for the symbolic shape code"""
  key0 = KPOOL[k0]
  if key0 == 'b' and r0 != 0 and r1 != 0:
    raise Reject()  # duplicate key: second would overwrite
  out = {}
  n = 0
  for key, r, sa, sb in ((key0, r0, s00, s01), ('b', r1, s10, s11)):
    n += 10
    if r == 0:
      if sa != 0 or sb != 0:
        raise Reject()
      continue
    if r == 1 or r == 2:
      if sa != 0 or sb != 0:
        raise Reject()
      out[key] = (v + n) if r == 1 else {}
      continue
    d = {}
    fa, fb = _sub(sa, v + n + 1), _sub(sb, v + n + 5)
    if fa is not None:
      d['a'] = fa()
    if fb is not None:
      d['c'] = fb()
    out[key] = d
  return out


def ref_flat(t, keep_empty, depth_cut=None, prefix=()):
  """independent reference: {path: leaf}"""
  res = {}
  if not isinstance(t, dict) or (depth_cut is not None and len(prefix) >= depth_cut):
    return {prefix: t}
  if not t and prefix != () and keep_empty:
    return {prefix: 'EMPTY'}
  for k, v in t.items():
    res.update(ref_flat(v, keep_empty, depth_cut, prefix + (k,)))
  return res


def prune(t):
  """remove sub-dicts that contain no leaf at all (root is kept)"""
  if not isinstance(t, dict):
    return t
  out = {}
  for k, v in t.items():
    if isinstance(v, dict):
      p = prune(v)
      if p:
        out[k] = p
    else:
      out[k] = v
  return out


def prune_cut(t, cut, depth=0):
  """with is_leaf = depth>=cut: dicts at depth cut are opaque leaves (kept even when
  empty); empty dicts above the cut are dropped"""
  if not isinstance(t, dict) or depth >= cut:
    return t
  out = {}
  for k, v in t.items():
    if isinstance(v, dict) and depth + 1 < cut:
      p = prune_cut(v, cut, depth + 1)
      if p:
        out[k] = p
    else:
      out[k] = v
  return out


def deep_plain(t):
  if isinstance(t, (dict, FrozenDict)):
    return {k: deep_plain(v) for k, v in t.items()}
  return t


APIS = ['traverse_util(dict)', 'traverse_util(FrozenDict)', 'nnx.traversals']


def roundtrip(api, sepmode, r0, r1, s00, s01, s10, s11, k0, keep, cut, v):
  """unflatten(flatten(t)) == t (exactly with keep_empty_nodes, up to empty-dict
  removal without), flatten(t) == reference {full path: leaf}, input untouched."""
  t = build(r0, r1, s00, s01, s10, s11, k0, v)
  orig = build(r0, r1, s00, s01, s10, s11, k0, v)
  sep = pick([None, '/', '__'], sepmode)
  if sep is not None and sep in KPOOL[k0] and r0 != 0:
    raise Reject()  # documented precondition: separator does not occur in keys
  if sep == '__' and KPOOL[k0].endswith('_') and r0 >= 3:
    raise Reject()  # 'w_' + '__' + child is ambiguous: the separator then also
    #                 occurs across the join ('w___a'); not a sensible precondition
  is_leaf = None
  if cut != 0:
    is_leaf = lambda prefix, xs: len(prefix) >= cut
  if api == 0:
    fl, un, arg, empty = TU.flatten_dict, TU.unflatten_dict, t, TU.empty_node
  elif api == 1:
    fl, un, arg, empty = TU.flatten_dict, TU.unflatten_dict, freeze(t), TU.empty_node
  else:
    fl, un, arg, empty = NT.flatten_mapping, NT.unflatten_mapping, t, NT.empty_node
  flat = fl(arg, keep_empty_nodes=keep, is_leaf=is_leaf, sep=sep)
  if t != orig:
    return False
  want = ref_flat(orig, keep, cut if cut else None)
  if not keep:
    want = {p: x for p, x in want.items()
            if not (isinstance(x, dict) and not x and (cut == 0 or len(p) < cut))}
  got = {}
  for p, x in flat.items():
    got[p] = 'EMPTY' if x is empty else deep_plain(x)
  if sep is not None:
    want = {sep.join(p): x for p, x in want.items()}
  if got != want:
    return False
  back = un(flat, sep=sep)
  back = deep_plain(back)
  if keep:
    return back == orig
  if cut:
    return back == prune_cut(orig, cut)
  return back == prune(orig)


def seq_order(r0, r1, s00, s01, s10, s11, k0, v):
  """flatten_to_sequence: each leaf once, full path, depth-first insertion order"""
  t = build(r0, r1, s00, s01, s10, s11, k0, v)
  seq = NT.flatten_to_sequence(t)
  want = [(p, x) for p, x in ref_flat(t, False).items()]
  return seq == want and NT.unflatten_mapping(seq) == prune_seq(t)


def prune_seq(t):
  # flatten_to_sequence keeps empty dicts as leaves? no: an empty mapping yields no
  # entry, so unflatten loses it
  return prune(t)


def path_map(api, r0, r1, s00, s01, s10, s11, k0, v):
  """path_aware_map visits every leaf exactly once with its full path, preserves
  structure (empty sub-dicts included)."""
  t = build(r0, r1, s00, s01, s10, s11, k0, v)
  calls = []

  def f(path, x):
    calls.append((path, x))
    return (path, x)
  out = TU.path_aware_map(f, freeze(t) if api else t)
  leaves = ref_flat(t, False)
  leaves = {p: x for p, x in leaves.items() if not isinstance(x, dict)}
  if len(calls) != len(leaves) or dict(calls) != leaves:
    return False

  def expect(node, prefix):
    if isinstance(node, dict):
      return {k: expect(x, prefix + (k,)) for k, x in node.items()}
    return (prefix, node)
  return deep_plain(out) == expect(t, ())


# ------------------------------------------------------------------ NNX State
SPATHS = [('a', 'x'), ('a', 'y'), ('b',), ('l', 0), ('l', 1), ('c', 'x', 'z')]
NP = len(SPATHS)
VT = [nnx.Param, nnx.BatchStat]


def _state(bits, ty, base):
  """State over the selected SPATHS; leaf = VariableState(type by ty bit, value)"""
  flat = []
  for i, p in enumerate(SPATHS):
    if (bits >> i) & 1:
      vt = nnx.BatchStat if (ty >> i) & 1 else nnx.Param
      flat.append((p, nnx.VariableState(vt, base + i)))
  return flat


def _paths_values(state):
  return {p: (type(v).__name__, getattr(v, 'type', None), getattr(v, 'value', v))
          for p, v in SL.to_flat_state(state)}


def _pv(flat):
  return {p: ('VariableState', v.type, v.value) for p, v in flat}


def state_conversions(bits, ty, base):
  """State <-> flat <-> nested <-> pure dict are lossless"""
  flat = _state(bits, ty, base)
  st = SL.from_flat_state(flat)
  fs = SL.to_flat_state(st)
  if list(fs.paths) != sorted(p for p, _ in flat):
    return False
  if _paths_values(st) != _pv(flat):
    return False
  st2 = SL.from_flat_state(fs)
  if st2 != st or _paths_values(st2) != _pv(flat):
    return False
  pure = SL.to_pure_dict(st)
  want = {}
  for p, v in flat:
    cur = want
    for k in p[:-1]:
      cur = cur.setdefault(k, {})
    cur[p[-1]] = v.value
  if pure != want:
    return False
  # replace_by_pure_dict with every value shifted: values change, types/paths do not
  shifted = NT.unflatten_mapping({p: v.value + 100 for p, v in flat})
  # string-ified integer keys must be accepted (checkpoint round trip)
  def strkeys(d):
    return {str(k) if isinstance(k, int) else k:
            (strkeys(x) if isinstance(x, dict) else x) for k, x in d.items()}
  SL.replace_by_pure_dict(st, strkeys(shifted))
  got = _paths_values(st)
  return got == {p: ('VariableState', v.type, v.value + 100) for p, v in flat}


def pure_dict_unknown_key(bits, ty, extra):
  """replace_by_pure_dict rejects a key that is not in the state"""
  flat = _state(bits, ty, 0)
  st = SL.from_flat_state(flat)
  p = SPATHS[extra]
  if (bits >> extra) & 1:
    raise Reject()
  # must not clash with an existing leaf prefix
  try:
    SL.replace_by_pure_dict(st, NT.unflatten_mapping({p: 5}))
  except ValueError:
    return _paths_values(st) == _pv(flat)
  return False


def set_laws(abits, bbits, aty, bty):
  """merge: later wins on overlap; a - b keeps exactly paths of a absent from b;
  a | b == merge(a, b)."""
  fa, fb = _state(abits, aty, 0), _state(bbits, bty, 50)
  a, b = SL.from_flat_state(fa), SL.from_flat_state(fb)
  want = dict(_pv(fa))
  want.update(_pv(fb))
  m = SL.merge_state(a, b)
  if _paths_values(m) != want:
    return False
  if _paths_values(a | b) != want:
    return False
  if _paths_values(a) != _pv(fa) or _paths_values(b) != _pv(fb):
    return False
  d = SL.diff(a, b)
  wantd = {p: x for p, x in _pv(fa).items() if p not in dict(fb)}
  if _paths_values(d) != wantd:
    return False
  with warnings.catch_warnings():
    warnings.simplefilter('ignore')
    d2 = a - b
  return _paths_values(d2) == wantd


FILTERS = [nnx.Param, nnx.BatchStat, ..., lambda path, v: 'a' in path,
           lambda path, v: False]


def _ref_match(fi, p, v):
  return [v.type is nnx.Param, v.type is nnx.BatchStat, True, 'a' in p, False][fi]


def split_merge(bits, ty, f0, f1, nf):
  """split partitions by first match, merge(split(s)) == s, filter == same groups
  without the exhaustiveness requirement"""
  flat = _state(bits, ty, 0)
  st = SL.from_flat_state(flat)
  fis = []
  for f in (f0, f1)[:nf]:
    fis.append(pick([0, 1, 2, 3, 4], f))
  if nf == 2 and fis[0] == 2 and fis[1] != 2:
    raise Reject()  # `...` before the end is rejected by the API (covered in C14)
  filters = [FILTERS[i] for i in fis]
  want = [dict() for _ in range(nf + 1)]
  for p, v in flat:
    for gi, fi in enumerate(fis):
      if _ref_match(fi, p, v):
        want[gi][p] = ('VariableState', v.type, v.value)
        break
    else:
      want[nf][p] = ('VariableState', v.type, v.value)
  groups = SL.filter_state(st, *filters)
  groups = (groups,) if nf == 1 else groups
  if [_paths_values(g) for g in groups] != want[:nf]:
    return False
  try:
    parts = SL.split_state(st, *filters)
  except ValueError:
    return len(want[nf]) > 0
  if want[nf]:
    return False
  parts = (parts,) if nf == 1 else parts
  if [_paths_values(g) for g in parts] != want[:nf]:
    return False
  merged = SL.merge_state(*parts)
  return _paths_values(merged) == _pv(flat) and merged == st


EXPLANATION = (
    'C16: nested dict shapes (depth<=3, <=2 keys per level, empty dicts, one '
    'symbolic key from a pool containing the separator and the empty string) '
    'through traverse_util and nnx.traversals with/without keep_empty_nodes, '
    'tuple and separator keys, is_leaf depth cut; NNX State conversions and set '
    'laws over all subsets of %d prefix-free paths.' % NP)
ASSUMPTIONS = (
    'keys other than the one symbolic slot are fixed distinct names (dict semantics '
    'of Python trusted); leaves are symbolic ints',
    'jax.core.get_opaque_trace_state compat shim installed by the harness process',
)


def type_filter_split(c0, c1, vt0, vt1, which):
  """split / filter by plain Variable-type filters partitions by FIRST match (shared
  with C14's reference): (Variable, Param) puts everything in the first group,
  (Param, subclass-of-Param) leaves the second group empty, ..."""
  from harness import c14 as C14
  idx = [0, 5, 6, 7]          # positions in C14.SPLIT_LEAVES: Param, BatchStat,
  return C14.nnx_split(2, pick(idx, c0), pick(idx, c1), 0, 2, vt0, vt1, 0, 0, 0, 0,
                       which)    # Variable, _SubParam


def obligations(tier):
  quick = tier == 'quick'
  F = qualnames(TU.flatten_dict, TU.unflatten_dict, TU.path_aware_map,
                NT.flatten_mapping, NT.unflatten_mapping, NT.flatten_to_sequence)
  G = qualnames(SL.to_flat_state, SL.from_flat_state, SL.to_pure_dict,
                SL.replace_by_pure_dict, SL.split_state, SL.filter_state,
                SL.merge_state, SL.diff, SL.State.__or__, SL.State.__sub__,
                SL.FlatState.__init__)
  if quick:
    shape = dict(r0=I(0, 3), r1=I(0, 3), s00=I(0, 4), s01=I(0, 2), s10=I(0, 2),
                 s11=I(0, 0), k0=I(0, 4))
    np_ = 4
  else:
    sub = I(0, 4)
    shape = dict(r0=I(0, 3), r1=I(0, 3), s00=sub, s01=sub, s10=sub, s11=sub,
                 k0=I(0, len(KPOOL) - 1))
    np_ = NP
  bits = I(0, 2 ** np_ - 1)
  return [
      Ob('dict_roundtrip', roundtrip,
         dict(api=I(0, 2), sepmode=I(0, 2), **shape, keep=B(), cut=I(0, 3),
              v=I(-3, 3)),
         split=('api', 'sepmode', 'r0', 'r1', 'cut') if quick else (
             'api', 'sepmode', 'r0', 'r1', 'cut', 'k0'), timeout=300 if quick else 900,
         funcs=F,
         bounds='depth<=3, <=2 keys/level, shape domains %r, keep_empty_nodes '
                'both, sep None, "/" or "__", is_leaf depth cut 0(None)..3, key pool %r'
                % ({k: repr(v) for k, v in shape.items()}, KPOOL)),
      Ob('flatten_to_sequence', seq_order, dict(**shape, v=I(-3, 3)),
         split=('r0', 'r1'), timeout=300, funcs=F, bounds='same shapes'),
      Ob('path_aware_map', path_map, dict(api=I(0, 1), **shape, v=I(-3, 3)),
         split=('api', 'r0', 'r1'), timeout=300, funcs=F, bounds='same shapes'),
      Ob('state_conversions', state_conversions,
         dict(bits=bits, ty=bits, base=I(-2, 2)), timeout=300, funcs=G,
         bounds='all subsets of %r, Param/BatchStat per entry' % (SPATHS[:np_],)),
      Ob('pure_dict_unknown_key', pure_dict_unknown_key,
         dict(bits=bits, ty=I(0, 0), extra=I(0, np_ - 1)), timeout=300, funcs=G),
      Ob('state_set_laws', set_laws,
         dict(abits=bits, bbits=bits, aty=I(0, 0) if quick else bits,
              bty=I(0, 0)), split=('abits',) if not quick else (),
         timeout=300 if quick else 900, funcs=G,
         bounds='pairs of states over all subsets of the first %d paths' % np_),
      Ob('state_split_type_filters', type_filter_split,
         dict(c0=I(0, 3), c1=I(0, 3), vt0=I(0, 4), vt1=I(0, 4), which=I(0, 3)),
         split=('which', 'c0'), timeout=300, funcs=G,
         bounds='2 entries of 5 Variable types (incl. a subclass of Param), 2 filters '
                'from {Param, BatchStat, Variable, subclass}: first match wins also '
                'when an earlier type filter is a superclass of a later one; '
                '_split_state / filter_state / State.split / split_flat_state'),
      Ob('state_split_merge', split_merge,
         dict(bits=bits, ty=bits, f0=I(0, 4), f1=I(0, 4),
              nf=I(1, 2)),
         split=('f0', 'nf') if quick else ('f0', 'f1', 'nf', 'ty'), timeout=300,
         funcs=G, bounds='<=2 filters from {Param, BatchStat, ..., path predicate, '
                'never}'),
  ]
