"""C12 -- feed-forward layers compute their documented formulas; Linen == NNX.
Engine C: the real layer code runs on symbolic arrays (jnp/lax rebound to the
vf.symnp shim) and z3 compares the output terms with an independent reference."""
import itertools
import time

import jax
import numpy as np
import z3

import flax.linen as nn
from flax import nnx
from flax.linen import linear as LL, normalization as LN, pooling as LP
from flax.linen import stochastic as LS_, dtypes as LD
from flax.nnx.nn import linear as NL, normalization as NN_, stochastic as NS_
from flax.nnx.nn import dtypes as ND

from harness.common import qualnames
from vf.ob import Ob
from vf import sym, symnp
from vf.sym import A, S
from vf.xh import I

MODS = [LL, LN, LP, LS_, LD, NL, NN_, NS_, ND]


class _Random:
  """random.bernoulli -> a fresh symbolic Bool mask (key-determined, data-free)"""
  masks = []

  @staticmethod
  def bernoulli(rng, p=0.5, shape=()):
    m = A.sym('mask%d' % len(_Random.masks), tuple(shape), 'bool')
    _Random.masks.append(m)
    return m

  def __getattr__(self, name):
    return getattr(jax.random, name)


class _JaxProxy:
  lax = symnp.LAX
  nn = symnp.NN
  numpy = symnp.JNP
  random = _Random()
  Array = A

  def __getattr__(self, name):
    return getattr(jax, name)


def be(name):
  """backend function: the shim under symbolic execution, real jax in replay"""
  if sym.CONCRETE['on']:
    import jax.numpy as jnp
    return {'conv_general_dilated': jax.lax.conv_general_dilated,
            'dot_general': jax.lax.dot_general, 'sigmoid': jax.nn.sigmoid,
            'tanh': jnp.tanh, 'multiply': jnp.multiply}[name]
  return {'conv_general_dilated': getattr(symnp.LAX, 'conv_general_dilated'),
          'dot_general': getattr(symnp.LAX, 'dot_general'),
          'sigmoid': symnp.NN.sigmoid, 'tanh': symnp.NN.tanh,
          'multiply': symnp.JNP.multiply}[name]


def R(tree):
  """replay boundary: symbolic arrays -> real jax arrays (identity otherwise)"""
  if not sym.CONCRETE['on']:
    return tree
  import jax.numpy as jnp

  def conv(x):
    if isinstance(x, A):
      a = x.to_numpy()
      return jnp.asarray(a.astype(np.float32) if a.dtype == np.float64 else a)
    if isinstance(x, S):
      return sym.to_float(x.t)
    return x
  return jax.tree_util.tree_map(conv, tree, is_leaf=lambda x: isinstance(x, (A, S)))


class SymEnv:
  def __enter__(self):
    self.saved = []
    if sym.CONCRETE['on']:
      # Linen: convert everything handed to Module.apply at the boundary
      orig_apply = nn.Module.apply

      def apply(self_, variables, *a, **k):
        return orig_apply(self_, R(variables), *R(a), **R(k))
      self.saved.append((nn.Module, 'apply', orig_apply))
      nn.Module.apply = apply
      # replay: the layers keep the real jnp/lax; only the random mask is injected
      _Random.masks = []
      for m in MODS:
        if hasattr(m, 'random'):
          self.saved.append((m, 'random', getattr(m, 'random')))
          setattr(m, 'random', _Random())
      return self
    for m in MODS:
      for name, repl in (('jnp', symnp.JNP), ('lax', symnp.LAX),
                         ('jax', _JaxProxy()), ('random', _Random())):
        if hasattr(m, name):
          self.saved.append((m, name, getattr(m, name)))
          setattr(m, name, repl)
    _Random.masks = []
    sym.SQRT_AXIOMS.clear()
    return self

  def __exit__(self, *a):
    for m, name, v in self.saved:
      setattr(m, name, v)
    return False


# ------------------------------------------------------------------ references
def idxs(shape):
  return itertools.product(*[range(s) for s in shape])


def ref_contract(x, k, b, n_contract, n_batch=0):
  """out[batch.., free_x.., feat..] = sum_c x[.., c..] * k[c.., feat..] + b[feat..]
  (contracting the LAST n_contract dims of x with the FIRST of k)"""
  fx = x.shape[:x.ndim - n_contract]
  cs = x.shape[x.ndim - n_contract:]
  fk = k.shape[n_contract:]
  out = []
  for i in idxs(fx):
    for j in idxs(fk):
      acc = S(0)
      for c in idxs(cs):
        acc = acc + x.at(i + c) * k.at(c + j)
      if b is not None:
        acc = acc + b.at(j)
      out.append(acc)
  return A(out, fx + fk)


def ref_norm(x, axes, eps, scale, bias, use_mean=True, mask=None, feat_axes=(-1,),
             given=None):
  axes = tuple(a % x.ndim for a in axes)
  out = []
  groups = {}
  for i in idxs(x.shape):
    key = tuple(v for d, v in enumerate(i) if d not in axes)
    groups.setdefault(key, []).append(i)
  stats = {}
  for key, members in groups.items():
    n = S(0)
    tot = S(0)
    for i in members:
      w = S(1) if mask is None else S(z3.If(mask.at(i).t, z3.RealVal(1),
                                            z3.RealVal(0)))
      n = n + w
      tot = tot + w * x.at(i)
    mean = tot / n if use_mean else S(0)
    sq = S(0)
    for i in members:
      w = S(1) if mask is None else S(z3.If(mask.at(i).t, z3.RealVal(1),
                                            z3.RealVal(0)))
      sq = sq + w * (x.at(i) - mean) * (x.at(i) - mean)
    stats[key] = (mean, sq / n)
  if given is not None:
    gm, gv = given
    stats = {key: (gm.at(key), gv.at(key)) for key in groups}
  fa = tuple(a % x.ndim for a in feat_axes)
  for i in idxs(x.shape):
    key = tuple(v for d, v in enumerate(i) if d not in axes)
    mean, var = stats[key]
    r = symnp.LAX.rsqrt(A([var + eps], ())).data[0]
    y = (x.at(i) - mean) * r
    f = tuple(i[d] for d in fa)
    if scale is not None:
      y = y * scale.at(f)
    if bias is not None:
      y = y + bias.at(f)
    out.append(y)
  return A(out, x.shape), stats


def ref_conv1d(x, k, b, stride, kdil, idil, groups, padding):
  """x: (N, L, C), k: (K, C/groups, F).  Direct sum with explicit index
  arithmetic; padding in SAME/VALID/CIRCULAR/REFLECT/CAUSAL/(lo,hi)."""
  N, Lx, C = x.shape
  K, Cg, F = k.shape
  keff = (K - 1) * kdil + 1
  Ld = (Lx - 1) * idil + 1

  def xin(n, p, c):
    """dilated+padded input value at (possibly out of range) dilated position p"""
    if padding in ('CIRCULAR', 'REFLECT'):
      if padding == 'CIRCULAR':
        p = p % Lx
      else:
        period = 2 * (Lx - 1) if Lx > 1 else 1
        p = p % period if Lx > 1 else 0
        p = p if p < Lx else period - p
      return x.at((n, p, c))
    if p < 0 or p >= Ld or p % idil:
      return S(0)
    return x.at((n, p // idil, c))
  if padding == 'VALID':
    lo, hi = 0, 0
  elif padding == 'SAME':
    out = -(-Ld // stride)
    tot = max((out - 1) * stride + keff - Ld, 0)
    lo, hi = tot // 2, tot - tot // 2
  elif padding in ('CIRCULAR', 'REFLECT'):
    lo, hi = (keff - 1) // 2, keff // 2
  elif padding == 'CAUSAL':
    lo, hi = keff - 1, 0
  else:
    lo, hi = padding
  Lo = (Ld + lo + hi - keff) // stride + 1
  fg = F // groups
  out = []
  for n in range(N):
    for o in range(Lo):
      for f in range(F):
        g = f // fg
        acc = S(0)
        for w in range(K):
          for ci in range(Cg):
            acc = acc + xin(n, o * stride + w * kdil - lo, g * Cg + ci) * k.at(
                (w, ci, f))
        if b is not None:
          acc = acc + b.at((f,))
        out.append(acc)
  return A(out, (N, Lo, F))


def ref_pool(x, window, stride, pad, kind):
  N, Lx, C = x.shape
  if pad == 'VALID':
    lo = hi = 0
  elif not isinstance(pad, str):
    (lo, hi), = pad
  else:
    out = -(-Lx // stride)
    tot = max((out - 1) * stride + window - Lx, 0)
    lo, hi = tot // 2, tot - tot // 2
  Lo = (Lx + lo + hi - window) // stride + 1
  out = []
  for n in range(N):
    for o in range(Lo):
      for c in range(C):
        vals = []
        for w in range(window):
          p = o * stride + w - lo
          vals.append(x.at((n, p, c)) if 0 <= p < Lx else None)
        if kind == 'avg':
          acc = S(0)
          for v in vals:
            acc = acc + (v if v is not None else S(0))
          out.append(acc / window)
        else:
          real = [v for v in vals if v is not None]
          acc = real[0]
          for v in real[1:]:
            acc = symnp.LAX.max(acc, v) if kind == 'max' else symnp.LAX.min(acc, v)
          if len(real) < len(vals):
            inf = S(1e30) if sym.CONCRETE['on'] else symnp.JNP.inf
            acc = (symnp.LAX.max(acc, -inf) if kind == 'max' else
                   symnp.LAX.min(acc, inf))
          out.append(acc)
  return A(out, (N, Lo, C))


class StatsStub:
  """replaces _compute_stats by fresh symbolic (mean, var) so that the normalise
  step is proved separately from the statistics lemma"""

  def __init__(self):
    self.calls = []

  def __call__(self, x, axes, dtype, axis_name=None, axis_index_groups=None,
               use_mean=True, use_fast_variance=True, mask=None,
               force_float32_reductions=True):
    ax = (axes,) if isinstance(axes, int) else tuple(axes)
    ax = tuple(a % x.ndim for a in ax)
    shape = tuple(s for i, s in enumerate(x.shape) if i not in ax)
    n = len(self.calls)
    mu = A.sym('mu%d' % n, shape) if use_mean else symnp.JNP.zeros(shape)
    var = A.sym('var%d' % n, shape)
    self.calls.append(dict(axes=ax, use_mean=use_mean, mask=mask, mu=mu, var=var,
                           x=x))
    return R(mu), R(var)


# ------------------------------------------------------------------ cases
def _prove(cases, t0, extra=()):
  """cases: [(label, got, want)]"""
  q = 0
  for label, got, want in cases:
    assume = list(extra)
    status, model, nq = sym.prove_equal([(got, want)], assume, timeout_ms=120000)
    q += nq
    if status != 'unsat':
      vals = {}
      if status == 'sat' and not isinstance(model, str) and model is not None:
        vals = sym.model_values(model)
      return dict(status='unknown' if status != 'sat' else 'sat', queries=q,
                  detail='%s: %s' % (label, model if isinstance(model, str) else
                                      'output differs from reference'),
                  cex=dict(case=label, model=vals) if status == 'sat' else None,
                  solver_s=time.time() - t0)
  return dict(status='unsat', queries=q, solver_s=time.time() - t0,
              witness=dict(cases=[c[0] for c in cases][:6], n=len(cases)))


def dense_family(which):
  t0 = time.time()
  cases = []
  with SymEnv():
    if which == 0:      # Dense / nnx.Linear, batch dims 0..2, with/without bias
      for bshape, use_bias in itertools.product([(), (2,), (2, 1)], (True, False)):
        x = A.sym('x', bshape + (3,))
        k = A.sym('k', (3, 2))
        b = A.sym('b', (2,))
        p = {'kernel': k}
        if use_bias:
          p['bias'] = b
        got = nn.Dense(2, use_bias=use_bias).apply({'params': p}, x)
        want = ref_contract(x, k, b if use_bias else None, 1)
        cases.append(('Dense%r bias=%s' % (bshape, use_bias), got, want))
        lin = nnx.Linear(3, 2, use_bias=use_bias, rngs=nnx.Rngs(0),
                         dot_general=be('dot_general'))
        lin.kernel.value = R(k)
        if use_bias:
          lin.bias.value = R(b)
        cases.append(('nnx.Linear%r bias=%s' % (bshape, use_bias), lin(R(x)), got))
      # LoRA: x @ A @ B (+ base(x)); LoRALinear: Linear(x) + x @ A @ B
      from flax.nnx.nn import lora as NLORA
      for bshape in ((), (2,)):
        x = A.sym('x', bshape + (3,))
        k, b = A.sym('k', (3, 2)), A.sym('b', (2,))
        la, lb = A.sym('la', (3, 1)), A.sym('lb', (1, 2))
        want_lora = ref_contract(ref_contract(x, la, None, 1), lb, None, 1)
        lo = nnx.LoRA(3, 1, 2, rngs=nnx.Rngs(0))
        lo.lora_a.value, lo.lora_b.value = R(la), R(lb)
        cases.append(('nnx.LoRA%r' % (bshape,), lo(R(x)), want_lora))
        base = nnx.Linear(3, 2, rngs=nnx.Rngs(0), dot_general=be('dot_general'))
        base.kernel.value, base.bias.value = R(k), R(b)
        lo2 = nnx.LoRA(3, 1, 2, base_module=base, rngs=nnx.Rngs(0))
        lo2.lora_a.value, lo2.lora_b.value = R(la), R(lb)
        want_full = ref_contract(x, k, b, 1) + want_lora
        cases.append(('nnx.LoRA with base%r' % (bshape,), lo2(R(x)), want_full))
        ll = nnx.LoRALinear(3, 2, lora_rank=1, rngs=nnx.Rngs(0),
                            dot_general=be('dot_general'))
        ll.kernel.value, ll.bias.value = R(k), R(b)
        ll.lora.lora_a.value, ll.lora.lora_b.value = R(la), R(lb)
        cases.append(('nnx.LoRALinear%r' % (bshape,), ll(R(x)), want_full))
    elif which == 1:    # DenseGeneral / LinearGeneral: axes and feature tuples
      for axis, feats, xs in [((-1,), (2,), (2, 3)), ((-2, -1), (2,), (2, 2, 3)),
                              ((-1,), (2, 2), (2, 3)), ((1, 2), (3,), (1, 2, 2)),
                              ((-1,), (2,), (3,))]:
        x = A.sym('x', xs)
        cs = tuple(xs[a] for a in axis)
        k = A.sym('k', cs + feats)
        b = A.sym('b', feats)
        got = nn.DenseGeneral(feats if len(feats) > 1 else feats[0], axis=axis if
                              len(axis) > 1 else axis[0]).apply(
                                  {'params': {'kernel': k, 'bias': b}}, x)
        want = ref_contract(x, k, b, len(axis))
        cases.append(('DenseGeneral axis=%r feats=%r x=%r' % (axis, feats, xs), got,
                      want))
        lg = nnx.LinearGeneral(cs if len(cs) > 1 else cs[0],
                               feats if len(feats) > 1 else feats[0],
                               axis=axis if len(axis) > 1 else axis[0],
                               rngs=nnx.Rngs(0),
                               dot_general=be('dot_general'))
        lg.kernel.value = R(k)
        lg.bias.value = R(b)
        cases.append(('nnx.LinearGeneral axis=%r feats=%r' % (axis, feats), lg(R(x)),
                      got))
    elif which == 2:    # Einsum
      for spec, xs, ks in [('...ij,jk->...ik', (2, 2, 3), (3, 2)),
                           ('bnh,hd->bnd', (1, 2, 3), (3, 2))]:
        x, k = A.sym('x', xs), A.sym('k', ks)
        b = A.sym('b', (ks[-1],))
        got = nn.Einsum(ks, spec).apply({'params': {'kernel': k, 'bias': b}}, x)
        want = ref_contract(x, k, b, 1)
        cases.append(('Einsum %s' % spec, got, want))
        es = nnx.Einsum(spec, ks, (ks[-1],), rngs=nnx.Rngs(0))
        es.kernel.value = R(k)
        es.bias.value = R(b)
        cases.append(('nnx.Einsum %s' % spec, es(R(x)), got))
    else:               # Embed lookup with SYMBOLIC indices, attend
      table = A.sym('e', (4, 3))
      ids = A.sym('i', (2, 2), 'int')
      extra = [z3.And(v.t >= 0, v.t <= 3) for v in ids.data]
      got = nn.Embed(4, 3).apply({'params': {'embedding': table}}, ids)
      want = []
      for pos in idxs((2, 2)):
        for f in range(3):
          v = table.at((3, f)).t
          for r in (2, 1, 0):
            v = z3.If(ids.at(pos).t == r, table.at((r, f)).t, v)
          want.append(S(v))
      cases.append(('Embed lookup', got, A(want, (2, 2, 3))))
      q = A.sym('q', (2, 3))
      att = nn.Embed(4, 3).apply({'params': {'embedding': table}}, q,
                                 method='attend')
      cases.append(('Embed.attend', att, ref_contract(q, table.transpose(), None,
                                                      1)))
      ne = nnx.Embed(4, 3, rngs=nnx.Rngs(0))
      ne.embedding.value = R(table)
      cases.append(('nnx.Embed', ne(R(ids)), got))
      cases.append(('nnx.Embed.attend', ne.attend(R(q)), att))
      return _prove(cases, t0, extra)
  return _prove(cases, t0)


def norm_family(which):
  t0 = time.time()
  cases = []
  eps = sym.scalar('eps', 0.25)
  extra = [eps.t > 0]
  with SymEnv():
    if which == 0 or which >= 100:   # statistics lemma: _compute_stats == definition
      for ci, (xs, red, use_mean, fast, masked) in enumerate([
          ((2, 3), (-1,), True, True, False), ((2, 3), (-1,), True, False, False),
          ((2, 2, 2), (-2, -1), True, True, False), ((3, 2), (0,), True, True, False),
          ((2, 3), (-1,), False, True, False), ((2, 3), (-1,), True, True, True),
          ((2, 3), (-1,), True, False, True)]):
        if which >= 100 and ci != which - 100:
          continue
        x = A.sym('x', xs)
        m = A.sym('m', xs, 'bool') if masked else None
        if masked and sym.CONCRETE['on']:
          m.data[0], m.data[3] = S(True), S(True)    # no fully masked row
        ex = []
        if masked:
          ex = [z3.Or([v.t for v in m.data[:3]]), z3.Or([v.t for v in m.data[3:]])]
        for fn, tag in ((LN._compute_stats, 'linen'), (NN_._compute_stats, 'nnx')):
          mu, var = fn(R(x), red, None, use_mean=use_mean, use_fast_variance=fast,
                       mask=R(m))
          _, stats = ref_norm(x, red, eps, None, None, use_mean, m, red)
          keys = list(idxs(A.of(mu).shape))
          wm = A([stats[k][0] for k in keys], A.of(mu).shape)
          wv = A([stats[k][1] for k in keys], A.of(var).shape)
          label = '%s._compute_stats x=%r axes=%r mean=%s fast=%s mask=%s' % (
              tag, xs, red, use_mean, fast, masked)
          if masked:
            # case split over the (finite) mask values keeps the queries free of
            # divisions by symbolic counts
            r = dict(status='unsat')
            for bits in itertools.product((False, True), repeat=len(m.data)):
              if not any(bits[:3]) or not any(bits[3:]):
                continue       # an all-masked row has no statistics
              sub = [(v.t, z3.BoolVal(b)) for v, b in zip(m.data, bits)]
              f = lambda arr: A([S(z3.simplify(z3.substitute(e.t, *sub)))
                                 for e in A.of(arr).data], A.of(arr).shape)
              r = _prove([(label + ' mean %r' % (bits,), f(mu), f(wm)),
                          (label + ' var %r' % (bits,), f(var), f(wv))], t0, extra)
              if r['status'] != 'unsat':
                break
          else:
            # lemma chaining: the reference variance is a mean of squares, proved
            # non-negative on its own (cheap) and then assumed, so that the clip
            # max(0, E[x^2] - E[x]^2) needs no non-linear sign reasoning
            nonneg = []
            for e in wv.data:
              sol = z3.Solver()
              sol.set('timeout', 30000)
              sol.add(*(list(extra) + list(ex)))
              sol.add(sym._num(e.t) < 0)
              if str(sol.check()) == 'unsat':
                nonneg.append(sym._num(e.t) >= 0)
            r = _prove([(label + ' mean', mu, wm), (label + ' var', var, wv)], t0,
                       list(extra) + list(ex) + nonneg)
          if r['status'] != 'unsat':
            return r
          cases.append((label, S(0), S(0)))
    elif which == 2:    # normalise step given the statistics (fresh symbols)
      stub_l, stub_n = StatsStub(), StatsStub()
      saved = (LN._compute_stats, NN_._compute_stats)
      LN._compute_stats, NN_._compute_stats = stub_l, stub_n
      try:
        for xs, red, ub, us in [((2, 3), (-1,), True, True),
                                ((2, 2, 2), (-2, -1), True, True),
                                ((2, 3), (-1,), False, True),
                                ((2, 3), (-1,), True, False)]:
          x = A.sym('x', xs)
          fshape = tuple(xs[a] for a in red)
          sc, bi = A.sym('s', fshape), A.sym('b', fshape)
          p = {}
          if us:
            p['scale'] = sc
          if ub:
            p['bias'] = bi
          ln = nn.LayerNorm(epsilon=R(eps), use_bias=ub, use_scale=us,
                            reduction_axes=red if len(red) > 1 else red[0],
                            feature_axes=red if len(red) > 1 else red[0])
          got = ln.apply({'params': p}, x)
          c = stub_l.calls[-1]
          if c['axes'] != tuple(a % len(xs) for a in red) or not c['use_mean']:
            return dict(status='sat', cex=dict(case='LayerNorm stats call'),
                        detail='statistics requested over wrong axes %r' % (c,))
          want, _ = ref_norm(x, red, eps, sc if us else None, bi if ub else None,
                             True, None, red, given=(c['mu'], c['var']))
          cases.append(('LayerNorm normalise x=%r red=%r bias=%s scale=%s' % (
              xs, red, ub, us), got, want))
          if len(red) == 1:
            nl = nnx.LayerNorm(xs[-1], epsilon=R(eps), use_bias=ub, use_scale=us,
                               rngs=nnx.Rngs(0))
            if us:
              nl.scale.value = R(sc)
            if ub:
              nl.bias.value = R(bi)
            gn = nl(R(x))
            cn = stub_n.calls[-1]
            wn, _ = ref_norm(x, red, eps, sc if us else None, bi if ub else None,
                             True, None, red, given=(cn['mu'], cn['var']))
            if cn['axes'] != c['axes'] or cn['use_mean'] != c['use_mean']:
              return dict(status='sat', cex=dict(case='nnx.LayerNorm stats call'),
                          detail='nnx requests different statistics')
            cases.append(('nnx.LayerNorm normalise %r' % (xs,), gn, wn))
        x = A.sym('x', (2, 3))
        sc = A.sym('s', (3,))
        got = nn.RMSNorm(epsilon=R(eps)).apply({'params': {'scale': sc}}, x)
        c = stub_l.calls[-1]
        if c['use_mean'] or c['axes'] != (1,):
          return dict(status='sat', cex=dict(case='RMSNorm stats call'),
                      detail='RMSNorm must use the uncentred second moment')
        want, _ = ref_norm(x, (-1,), eps, sc, None, False, None, (-1,),
                           given=(c['mu'], c['var']))
        cases.append(('RMSNorm normalise', got, want))
        nr = nnx.RMSNorm(3, epsilon=R(eps), rngs=nnx.Rngs(0))
        nr.scale.value = R(sc)
        gn = nr(R(x))
        cn = stub_n.calls[-1]
        wn, _ = ref_norm(x, (-1,), eps, sc, None, False, None, (-1,),
                         given=(cn['mu'], cn['var']))
        if cn['use_mean']:
          return dict(status='sat', cex=dict(case='nnx.RMSNorm stats call'))
        cases.append(('nnx.RMSNorm normalise', gn, wn))
        m = A.sym('m', (2, 3), 'bool')
        gotm = nn.LayerNorm(epsilon=R(eps)).apply(
            {'params': {'scale': sc, 'bias': sc}}, x, mask=m)
        c = stub_l.calls[-1]
        if not sym.CONCRETE['on'] and c['mask'] is not m:
          return dict(status='sat', cex=dict(case='LayerNorm mask'),
                      detail='mask not forwarded to the statistics')
        wantm, _ = ref_norm(x, (-1,), eps, sc, sc, True, None, (-1,),
                            given=(c['mu'], c['var']))
        cases.append(('LayerNorm mask normalise', gotm, wantm))
      finally:
        LN._compute_stats, NN_._compute_stats = saved
    elif which == 3:    # GroupNorm / InstanceNorm given the statistics
      stub_l, stub_n = StatsStub(), StatsStub()
      saved = (LN._compute_stats, NN_._compute_stats)
      LN._compute_stats, NN_._compute_stats = stub_l, stub_n
      try:
        N, Lx, C = 1, 2, 4
        x = A.sym('x', (N, Lx, C))
        sc, bi = A.sym('s', (C,)), A.sym('b', (C,))
        for groups, gsize in ((2, None), (None, 1), (1, None), (4, None)):
          G = groups if groups is not None else C // gsize
          gs = C // G
          gn = nn.GroupNorm(num_groups=groups, group_size=gsize, epsilon=R(eps))
          got = gn.apply({'params': {'scale': sc, 'bias': bi}}, x)
          c = stub_l.calls[-1]
          # the statistics must be taken over (length, group members) of x viewed
          # as [N, L, G, group_size]
          xg = c['x']
          ok = xg.shape == (N, Lx, G, gs) and c['axes'] == (1, 3) and c['use_mean']
          if ok:
            for n_, l_, g_, j_ in idxs((N, Lx, G, gs)):
              if not sym.CONCRETE['on'] and xg.at((n_, l_, g_, j_)) is not x.at(
                  (n_, l_, g_ * gs + j_)):
                ok = False
          if not ok:
            return dict(status='sat', cex=dict(case='GroupNorm grouping'),
                        detail='statistics requested over the wrong grouping: '
                               'shape %r axes %r' % (xg.shape, c['axes']))
          want = []
          for n_, l_, ch in idxs((N, Lx, C)):
            mu, var = c['mu'].at((n_, ch // gs)), c['var'].at((n_, ch // gs))
            r = symnp.LAX.rsqrt(A([var + eps], ())).data[0]
            want.append((x.at((n_, l_, ch)) - mu) * r * sc.at((ch,)) + bi.at((ch,)))
          cases.append(('GroupNorm groups=%r size=%r' % (groups, gsize), got,
                        A(want, (N, Lx, C))))
          ng = nnx.GroupNorm(C, num_groups=groups, group_size=gsize, epsilon=R(eps),
                             rngs=nnx.Rngs(0))
          ng.scale.value, ng.bias.value = R(sc), R(bi)
          gn_out = ng(R(x))
          cn = stub_n.calls[-1]
          if cn['x'].shape != xg.shape or cn['axes'] != c['axes']:
            return dict(status='sat', cex=dict(case='nnx.GroupNorm grouping'))
          wn = []
          for n_, l_, ch in idxs((N, Lx, C)):
            mu, var = cn['mu'].at((n_, ch // gs)), cn['var'].at((n_, ch // gs))
            r = symnp.LAX.rsqrt(A([var + eps], ())).data[0]
            wn.append((x.at((n_, l_, ch)) - mu) * r * sc.at((ch,)) + bi.at((ch,)))
          cases.append(('nnx.GroupNorm groups=%r size=%r' % (groups, gsize), gn_out,
                        A(wn, (N, Lx, C))))
        # explicit reduction_axes on a rank-4 input: the statistics keep every
        # axis that is not reduced, and each channel uses its own group's
        x4 = A.sym('y', (1, 2, 2, 4))
        for ra in ((-1,), (2, 3), (1, 3), (1, 2, 3)):
          G, gs = 2, 2
          cra = tuple(sorted(a % 4 for a in ra))
          keep = [d for d in range(3) if d not in cra]

          def want_of(call):
            out = []
            for i in idxs(x4.shape):
              si = tuple(i[d] for d in keep) + (i[3] // gs,)
              mu, var = call['mu'].at(si), call['var'].at(si)
              r = symnp.LAX.rsqrt(A([var + eps], ())).data[0]
              out.append((x4.at(i) - mu) * r * sc.at((i[3],)) + bi.at((i[3],)))
            return A(out, x4.shape)

          def grouping_ok(call):
            xg = call['x']
            if xg.shape != (1, 2, 2, G, gs) or call['axes'] != cra[:-1] + (4,):
              return False
            if sym.CONCRETE['on']:
              return True
            return all(xg.at(i[:3] + (i[3] // gs, i[3] % gs)) is x4.at(i)
                       for i in idxs(x4.shape))

          gn = nn.GroupNorm(num_groups=G, epsilon=R(eps), reduction_axes=ra)
          got = gn.apply({'params': {'scale': sc, 'bias': bi}}, x4)
          c = stub_l.calls[-1]
          if not grouping_ok(c):
            return dict(status='sat', cex=dict(case='GroupNorm reduction_axes=%r '
                                               'grouping' % (ra,)))
          cases.append(('GroupNorm reduction_axes=%r' % (ra,), got, want_of(c)))
          ng = nnx.GroupNorm(4, num_groups=G, epsilon=R(eps), reduction_axes=ra,
                             rngs=nnx.Rngs(0))
          ng.scale.value, ng.bias.value = R(sc), R(bi)
          try:
            gn_out = ng(R(x4))
          except Exception as e:
            return dict(status='sat', cex=dict(
                case='nnx.GroupNorm reduction_axes=%r' % (ra,)),
                detail='raises %s' % type(e).__name__)
          cn = stub_n.calls[-1]
          if not grouping_ok(cn):
            return dict(status='sat', cex=dict(case='nnx.GroupNorm reduction_axes=%r'
                                               ' grouping' % (ra,)))
          cases.append(('nnx.GroupNorm reduction_axes=%r' % (ra,), gn_out,
                        want_of(cn)))
        inn = nn.InstanceNorm(epsilon=R(eps))
        got = inn.apply({'params': {'scale': sc, 'bias': bi}}, x)
        c = stub_l.calls[-1]
        if c['axes'] != (1,) or (not sym.CONCRETE['on'] and c['x'] is not x):
          return dict(status='sat', cex=dict(case='InstanceNorm axes'),
                      detail='InstanceNorm must reduce the spatial axes only')
        want, _ = ref_norm(x, (1,), eps, sc, bi, True, None, (-1,),
                           given=(c['mu'], c['var']))
        cases.append(('InstanceNorm', got, want))
      finally:
        LN._compute_stats, NN_._compute_stats = saved
    else:               # BatchNorm given the batch statistics (lemma: which==0)
      stub_l, stub_n = StatsStub(), StatsStub()
      saved = (LN._compute_stats, NN_._compute_stats)
      LN._compute_stats, NN_._compute_stats = stub_l, stub_n
      try:
        x = A.sym('x', (3, 2))
        sc, bi = A.sym('s', (2,)), A.sym('b', (2,))
        rm, rv = A.sym('rm', (2,)), A.sym('rv', (2,))
        mom = sym.scalar('momentum', 0.75)
        variables = {'params': {'scale': sc, 'bias': bi},
                     'batch_stats': {'mean': rm, 'var': rv}}
        bn = nn.BatchNorm(use_running_average=False, momentum=R(mom), epsilon=R(eps))
        got, upd = bn.apply(variables, x, mutable=['batch_stats'])
        c = stub_l.calls[-1]
        if c['axes'] != (0,) or not c['use_mean'] or (
            not sym.CONCRETE['on'] and c['x'] is not x):
          return dict(status='sat', cex=dict(case='BatchNorm stats call'),
                      detail='batch statistics requested over wrong axes')
        bm, bv = c['mu'], c['var']
        want, _ = ref_norm(x, (0,), eps, sc, bi, True, None, (-1,), given=(bm, bv))
        cases.append(('BatchNorm train output', got, want))
        cases.append(('BatchNorm running mean', upd['batch_stats']['mean'],
                      rm * mom + bm * (1 - mom)))
        cases.append(('BatchNorm running var', upd['batch_stats']['var'],
                      rv * mom + bv * (1 - mom)))
        ncalls = len(stub_l.calls)
        bn_inf = nn.BatchNorm(use_running_average=True, momentum=R(mom), epsilon=R(eps))
        got_inf = bn_inf.apply(variables, x)
        if len(stub_l.calls) != ncalls:
          return dict(status='sat', cex=dict(case='BatchNorm inference'),
                      detail='inference mode recomputed batch statistics')
        want_inf, _ = ref_norm(x, (0,), eps, sc, bi, True, None, (-1,),
                               given=(rm, rv))
        cases.append(('BatchNorm inference uses running stats unchanged', got_inf,
                      want_inf))
        nb = nnx.BatchNorm(2, momentum=R(mom), epsilon=R(eps), rngs=nnx.Rngs(0))
        nb.scale.value, nb.bias.value = R(sc), R(bi)
        nb.mean.value, nb.var.value = R(rm), R(rv)
        gn = nb(R(x), use_running_average=False)
        cn = stub_n.calls[-1]
        if cn['axes'] != (0,) or not cn['use_mean']:
          return dict(status='sat', cex=dict(case='nnx.BatchNorm stats call'))
        wn, _ = ref_norm(x, (0,), eps, sc, bi, True, None, (-1,),
                         given=(cn['mu'], cn['var']))
        cases.append(('nnx.BatchNorm train output', gn, wn))
        cases.append(('nnx.BatchNorm running mean', nb.mean.value,
                      rm * mom + cn['mu'] * (1 - mom)))
        cases.append(('nnx.BatchNorm running var', nb.var.value,
                      rv * mom + cn['var'] * (1 - mom)))
        nb2 = nnx.BatchNorm(2, momentum=R(mom), epsilon=R(eps), rngs=nnx.Rngs(0))
        nb2.scale.value, nb2.bias.value = R(sc), R(bi)
        nb2.mean.value, nb2.var.value = R(rm), R(rv)
        cases.append(('nnx.BatchNorm inference', nb2(R(x), use_running_average=True),
                      want_inf))
      finally:
        LN._compute_stats, NN_._compute_stats = saved
  return _prove(cases, t0, extra)


PROVOKE = [1000.1, 3000.7, 12345.678, 0.1, 10000.3, 77.77, 255.9, 4097.3, 1e-3,
           33333.33]


def variance_roundoff(which):
  """the variance handed to rsqrt is >= 0 WHATEVER rounding does to the means
  (each computed mean is an arbitrary real constrained only by sign preservation):
  the documented 'clips negative variances' contract of _compute_stats"""
  t0 = time.time()
  cfgs = [(True, True, False), (True, False, False), (False, True, False),
          (True, True, True), (True, False, True)]
  fns = ((LN._compute_stats, 'linen'), (NN_._compute_stats, 'nnx'))
  if sym.CONCRETE['on']:
    # replay: float32 inputs whose E[x^2]-E[x]^2 rounds below zero, real functions
    import jax.numpy as jnp
    for fn, tag in fns:
      for use_mean, fast, masked in cfgs:
        for c in PROVOKE:
          for n in (3, 6, 7):
            x = jnp.full((2, n), c, jnp.float32)
            mask = jnp.ones((2, n), bool).at[0, 0].set(False) if masked else None
            mu, var = fn(x, (-1,), None, use_mean=use_mean, use_fast_variance=fast,
                         mask=mask)
            if not bool((var >= 0).all()):
              return dict(status='sat', cex=dict(case='%s c=%r n=%d' % (tag, c, n)))
    return dict(status='unsat')
  q = 0
  with SymEnv():
    for fn, tag in fns:
      for use_mean, fast, masked in cfgs:
        x = A.sym('x', (2, 3))
        m = A.sym('m', (2, 3), 'bool') if masked else None
        sym.NOISY_MEAN['on'], sym.NOISY_MEAN['assume'] = True, []
        try:
          mu, var = fn(x, (-1,), None, use_mean=use_mean, use_fast_variance=fast,
                       mask=m)
        finally:
          sym.NOISY_MEAN['on'] = False
        sol = z3.Solver()
        sol.set('timeout', 120000)
        sol.add(*sym.NOISY_MEAN['assume'])
        sol.add(z3.Or([sym._num(v.t) < 0 for v in A.of(var).data]))
        r = str(sol.check())
        q += 1
        if r != 'unsat':
          label = '%s._compute_stats use_mean=%s fast=%s masked=%s' % (
              tag, use_mean, fast, masked)
          return dict(status='sat' if r == 'sat' else 'unknown', queries=q,
                      detail=label + ': variance can be negative under round-off',
                      cex=dict(case=label) if r == 'sat' else None,
                      solver_s=time.time() - t0)
  return dict(status='unsat', queries=q, solver_s=time.time() - t0,
              witness=dict(cases=['variance >= 0, %d configurations' % q], n=q))


def dropout_pool(which):
  t0 = time.time()
  cases = []
  extra = []
  with SymEnv():
    if which == 0:
      x = A.sym('x', (2, 3))
      key = jax.random.key(0)
      cases.append(('Dropout deterministic', nn.Dropout(0.5, deterministic=True)
                    .apply({}, x), x))
      cases.append(('Dropout rate 1 deterministic', nn.Dropout(
          1.0, deterministic=True).apply({}, x), x))
      cases.append(('Dropout rate 1 deterministic at call', nn.Dropout(1.0).apply(
          {}, x, deterministic=True), x))
      nd = nnx.Dropout(1.0, deterministic=True, rngs=nnx.Rngs(0))
      cases.append(('nnx.Dropout rate 1 deterministic', nd(R(x)), x))
      nd0 = nnx.Dropout(0.0, deterministic=False, rngs=nnx.Rngs(0))
      cases.append(('nnx.Dropout rate 0', nd0(R(x)), x))
      cases.append(('Dropout rate 0', nn.Dropout(0.0, deterministic=False).apply(
          {}, x, rngs={'dropout': key}), x))
      cases.append(('Dropout rate 1', nn.Dropout(1.0, deterministic=False).apply(
          {}, x, rngs={'dropout': key}), symnp.JNP.zeros((2, 3))))
      for bdims in ((), (0,)):
        _Random.masks.clear()
        got = nn.Dropout(0.25, deterministic=False, broadcast_dims=bdims).apply(
            {}, x, rngs={'dropout': key})
        mask = _Random.masks[-1]
        want = []
        for i in idxs((2, 3)):
          mi = tuple(0 if d in bdims else v for d, v in enumerate(i))
          want.append(S(z3.If(mask.at(mi).t, (x.at(i) / 0.75).t, z3.RealVal(0))))
        cases.append(('Dropout rate .25 bdims=%r' % (bdims,), got, A(want, (2, 3))))
    else:
      x = A.sym('x', (1, 5, 2))
      inf = S(1e30) if sym.CONCRETE['on'] else symnp.JNP.inf
      extra = [inf.t > v.t for v in x.data] + [-inf.t < v.t for v in x.data]
      for win, st, pad in [(2, 1, 'VALID'), (2, 2, 'VALID'), (3, 2, 'SAME'),
                           (3, 1, 'SAME'), (2, 1, ((1, 1),)), (3, 2, ((1, 1),)),
                           (3, 1, ((0, 2),))]:
        cases.append(('avg_pool %d/%d/%s' % (win, st, pad), nn.avg_pool(
            R(x), (win,), (st,), pad), ref_pool(x, win, st, pad, 'avg')))
        # count_include_pad=False: divide by the number of real (unpadded) inputs
        gotn = nn.avg_pool(R(x), (win,), (st,), pad, count_include_pad=False)
        sums = ref_pool(x, win, st, pad, 'avg') * win
        ones = ref_pool(symnp.JNP.ones((1, 5, 1)), win, st, pad, 'avg') * win
        wantn = A([sums.at(i) / ones.at((i[0], i[1], 0)) for i in idxs(sums.shape)],
                  sums.shape)
        cases.append(('avg_pool no-pad-count %d/%d/%s' % (win, st, pad), gotn,
                      wantn))
        cases.append(('max_pool %d/%d/%s' % (win, st, pad), nn.max_pool(
            R(x), (win,), (st,), pad), ref_pool(x, win, st, pad, 'max')))
        cases.append(('min_pool %d/%d/%s' % (win, st, pad), nn.pooling.min_pool(
            R(x), (win,), (st,), pad), ref_pool(x, win, st, pad, 'min')))
        # extra / missing batch dimensions: pooling acts on (window dims, features)
        # whatever precedes them
        wa = ref_pool(x, win, st, pad, 'avg')
        for nb, shp in ((0, (5, 2)), (2, (1, 1, 5, 2)), (3, (1, 1, 1, 5, 2))):
          try:
            gb = nn.avg_pool(R(x.reshape(shp)), (win,), (st,), pad)
          except Exception as e:
            return dict(status='sat', cex=dict(
                case='avg_pool %d/%d/%s with %d batch dims' % (win, st, pad, nb)),
                detail='raises %s' % type(e).__name__, queries=0,
                solver_s=time.time() - t0)
          cases.append(('avg_pool %d/%d/%s with %d batch dims' % (win, st, pad, nb),
                        gb, wa.reshape(shp[:-2] + wa.shape[1:])))
  return _prove(cases, t0, extra)


def conv_family(pad_i):
  t0 = time.time()
  cases = []
  pads = ['SAME', 'VALID', 'CIRCULAR', 'REFLECT', 'CAUSAL', (1, 2)]
  pad = pads[pad_i]
  with SymEnv():
    grid = [
        (1, 1, 1, 1, 1, True), (2, 1, 1, 1, 1, True), (3, 1, 1, 1, 1, False),
        (3, 2, 1, 1, 1, True), (2, 1, 2, 1, 1, True), (3, 1, 1, 1, 2, True),
        (2, 1, 1, 2, 1, True), (3, 2, 2, 1, 2, False)]
    if TIER['t'] == 'thorough':
      grid += [(4, 1, 1, 1, 1, True), (5, 1, 1, 1, 1, False), (4, 2, 1, 1, 1, True),
               (2, 3, 1, 1, 1, True), (3, 3, 1, 1, 1, True), (3, 1, 2, 1, 1, True),
               (2, 2, 2, 1, 2, True), (4, 1, 1, 1, 2, False), (2, 1, 1, 3, 1, True),
               (3, 2, 1, 2, 1, False), (2, 1, 3, 1, 1, True), (5, 2, 1, 1, 1, True)]
    for K, stride, kdil, idil, groups, use_bias in grid:
      if idil != 1 and isinstance(pad, str):
        continue
      if pad in ('CIRCULAR', 'REFLECT') and stride != 1:
        continue       # documented for stride 1
      C, F, Lx = 2, 2, 5
      x = A.sym('x', (1, Lx, C))
      k = A.sym('k', (K, C // groups, F))
      b = A.sym('b', (F,))
      p = {'kernel': k}
      if use_bias:
        p['bias'] = b
      conv = nn.Conv(F, (K,), strides=(stride,), kernel_dilation=(kdil,),
                     input_dilation=(idil,), feature_group_count=groups,
                     padding=pad if isinstance(pad, str) else [pad],
                     use_bias=use_bias,
                     conv_general_dilated=be('conv_general_dilated'))
      got = conv.apply({'params': p}, x)
      want = ref_conv1d(x, k, b if use_bias else None, stride, kdil, idil, groups,
                        pad)
      label = 'Conv K=%d s=%d kd=%d id=%d g=%d bias=%s pad=%r' % (
          K, stride, kdil, idil, groups, use_bias, pad)
      cases.append((label, got, want))
      nc = nnx.Conv(C, F, (K,), strides=(stride,), kernel_dilation=(kdil,),
                    input_dilation=(idil,), feature_group_count=groups,
                    padding=pad if isinstance(pad, str) else [pad],
                    use_bias=use_bias, rngs=nnx.Rngs(0),
                    conv_general_dilated=be('conv_general_dilated'))
      nc.kernel.value = R(k)
      if use_bias:
        nc.bias.value = R(b)
      cases.append(('nnx.' + label, nc(R(x)), got))
      # extra / missing batch dimensions
      if K == 2 and stride == 1 and kdil == 1 and idil == 1:
        x2 = A.sym('x', (Lx, C))
        got2 = conv.apply({'params': p}, x2)
        want2 = ref_conv1d(x2.reshape(1, Lx, C), k, b if use_bias else None, 1, 1,
                           1, groups, pad)
        cases.append(('unbatched ' + label, got2, want2.reshape(want2.shape[1:])))
  return _prove(cases, t0)


def ref_convT1d(x, k, b, stride, kdil, pad, tk):
  """transposed convolution as a direct SCATTER sum.  x: (N, L, C); k: (K, C, F), or
  (K, F, C) with transpose_kernel.  Every input position i and tap w contributes
  x[i]*k[w] to output position i*stride + w'*kdil - off, w' = w (transpose_kernel:
  the true transpose of Conv) or K-1-w (plain: the kernel is not flipped); `off`
  follows from jax.lax.conv_transpose's documented SAME / VALID padding.  CIRCULAR
  (plain kernel): SAME's alignment with positions wrapped modulo L*stride."""
  N, Lx, C = x.shape
  K = k.shape[0]
  F = k.shape[1] if tk else k.shape[2]
  keff = (K - 1) * kdil + 1
  wrap = pad == 'CIRCULAR'
  if pad in ('SAME', 'CIRCULAR'):
    pad_len = keff + stride - 2
    pa = keff - 1 if stride > keff - 1 else -(-pad_len // 2)
    pb = pad_len - pa
  elif pad == 'VALID':
    pad_len = keff + stride - 2 + max(keff - stride, 0)
    pa = keff - 1
    pb = pad_len - pa
  else:
    pa, pb = pad
  Lo = Lx * stride if wrap else (Lx - 1) * stride + 1 + pa + pb - keff + 1
  acc = {}
  for n in range(N):
    for i in range(Lx):
      for w in range(K):
        wp = w if tk else K - 1 - w
        o = i * stride + wp * kdil - (keff - 1 - pa)
        if wrap:
          o %= Lo
        if not 0 <= o < Lo:
          continue
        for c in range(C):
          for f in range(F):
            kv = k.at((w, f, c)) if tk else k.at((w, c, f))
            acc[(n, o, f)] = acc.get((n, o, f), S(0)) + x.at((n, i, c)) * kv
  out = []
  for n in range(N):
    for o in range(Lo):
      for f in range(F):
        v = acc.get((n, o, f), S(0))
        out.append(v + b.at((f,)) if b is not None else v)
  return A(out, (N, Lo, F))


CONVT_GRID = [(1, 1, 1), (2, 1, 1), (3, 1, 1), (4, 1, 1), (2, 2, 1), (3, 2, 1),
              (4, 2, 1), (2, 3, 1), (3, 3, 1), (2, 1, 2), (3, 2, 2), (2, 4, 1)]
CONVT_GRID_THOROUGH = [(5, 1, 1), (5, 2, 1), (4, 3, 1), (3, 1, 2), (2, 2, 2),
                       (4, 2, 2), (3, 3, 2), (2, 5, 1), (5, 3, 1), (3, 4, 1),
                       (4, 1, 2), (3, 1, 3), (2, 3, 2), (6, 1, 1), (6, 2, 1)]
TIER = {'t': 'quick'}


def _convt_grid():
  return CONVT_GRID + (CONVT_GRID_THOROUGH if TIER['t'] == 'thorough' else [])


def convT_family(which):
  """which 0..2: SAME / VALID / explicit pairs against the scatter sum; 3: CIRCULAR
  with the plain kernel == SAME alignment with periodic wrap-around, and shift
  equivariance; 4: CIRCULAR with transpose_kernel is the transpose of
  Conv(CIRCULAR) with the same kernel (as its source states)"""
  t0 = time.time()
  cases = []
  with SymEnv():
    if which < 4:
      pad = ['SAME', 'VALID', (1, 2), 'CIRCULAR'][which]
      for K, stride, kdil in _convt_grid():
        for tk in ((False, True) if which < 3 else (False,)):
          C, F, Lx = 2, 1, 3
          x = A.sym('x', (1, Lx, C))
          k = A.sym('k', (K, F, C) if tk else (K, C, F))
          b = A.sym('b', (F,))
          use_bias = K != 2
          p = {'kernel': k}
          if use_bias:
            p['bias'] = b
          kw = dict(strides=(stride,), kernel_dilation=(kdil,),
                    padding=pad if isinstance(pad, str) else [pad],
                    use_bias=use_bias, transpose_kernel=tk)
          lay = nn.ConvTranspose(F, (K,), **kw)
          got = lay.apply({'params': p}, x)
          want = ref_convT1d(x, k, b if use_bias else None, stride, kdil, pad, tk)
          label = 'ConvTranspose K=%d s=%d kd=%d tk=%s pad=%r' % (K, stride, kdil, tk,
                                                                  pad)
          cases.append((label, got, want))
          nc = nnx.ConvTranspose(C, F, (K,), rngs=nnx.Rngs(0), **kw)
          nc.kernel.value = R(k)
          if use_bias:
            nc.bias.value = R(b)
          cases.append(('nnx.' + label, nc(R(x)), want))
          if which == 3:
            # periodic boundary conditions: rolling the input by one position rolls
            # the output by `stride`
            xr = A([x.at((0, (i - 1) % Lx, c)) for i in range(Lx) for c in range(C)],
                   (1, Lx, C))
            gr = A.of(lay.apply({'params': p}, xr))
            g0 = A.of(got)
            P = Lx * stride
            cases.append(('shift equivariance ' + label, gr, A(
                [g0.at((0, (o - stride) % P, f)) for o in range(P) for f in range(F)],
                (1, P, F))))
          if (K, stride, kdil) == (3, 2, 1):
            # extra / missing batch dimensions, kernel mask
            for shp in ((Lx, C), (1, 1, Lx, C)):
              g2 = lay.apply({'params': p}, x.reshape(shp))
              cases.append(('batch dims %d ' % (len(shp) - 2) + label, g2,
                            want.reshape(shp[:-2] + want.shape[1:])))
            msk = np.array([1.0, 0.0, 1.0]).reshape(3, 1, 1) * np.ones(k.shape)
            lm = nn.ConvTranspose(F, (K,), mask=msk, **kw)
            km = A([k.at(i) * float(msk[i]) for i in idxs(k.shape)], k.shape)
            cases.append(('masked ' + label, lm.apply({'params': p}, x), ref_convT1d(
                x, km, b if use_bias else None, stride, kdil, pad, tk)))
    else:
      for K, stride, kdil in _convt_grid():
        for C, F in ((1, 1),) + (((2, 1),) if (K, stride) == (2, 1) else ()):
          Ly = 3
          Lin = Ly * stride
          x = A.sym('x', (1, Lin, C))
          y = A.sym('y', (1, Ly, F))
          k = A.sym('k', (K, C, F))
          kw = dict(strides=(stride,), kernel_dilation=(kdil,), padding='CIRCULAR',
                    use_bias=False)
          cx = A.of(nn.Conv(F, (K,), conv_general_dilated=be('conv_general_dilated'),
                            **kw).apply({'params': {'kernel': k}}, x))
          label = 'K=%d s=%d kd=%d C=%d' % (K, stride, kdil, C)
          if cx.shape != y.shape:
            return dict(status='sat', cex=dict(case='Conv CIRCULAR shape ' + label))
          for mod, tag in ((nn.ConvTranspose(C, (K,), transpose_kernel=True, **kw),
                            'linen'), (None, 'nnx')):
            if mod is not None:
              ct = mod.apply({'params': {'kernel': k}}, y)
            else:
              nc = nnx.ConvTranspose(F, C, (K,), transpose_kernel=True,
                                     rngs=nnx.Rngs(0), **kw)
              nc.kernel.value = R(k)
              ct = nc(R(y))
            ct = A.of(ct)
            if ct.shape != x.shape:
              return dict(status='sat', cex=dict(case='ConvT CIRCULAR shape ' + label))
            lhs = S(0)
            for i in idxs(y.shape):
              lhs = lhs + cx.at(i) * y.at(i)
            rhs = S(0)
            for i in idxs(x.shape):
              rhs = rhs + x.at(i) * ct.at(i)
            cases.append(('%s <Conv x, y> == <x, ConvTranspose y> CIRCULAR %s' % (
                tag, label), A([lhs], ()), A([rhs], ())))
  return _prove(cases, t0)


class _EvalShape:
  """jax.eval_shape for ConvLocal's kernel-shape computation: run the function on
  symbolic stand-ins of the abstract arguments, keep the shape"""

  def __call__(self, f, *args):
    conc = []
    for a_ in args:
      if isinstance(a_, A):
        conc.append(a_)
      else:
        conc.append(A.sym('abs', tuple(a_.shape)))
    out = A.of(f(*conc))

    class R_:
      shape = tuple(out.shape)
    return R_


def convlocal_family(which):
  """ConvLocal: one kernel per output position: y[n,o,f] = sum_{c,w} x[n, o*s +
  w*kd - lo, c] * K[o, c*K + w, f] + bias[o, f]"""
  t0 = time.time()
  cases = []
  pad = ['VALID', 'SAME', (1, 1)][which]
  with SymEnv():
    saved_es, saved_sa = LL.eval_shape, LL.ShapedArray
    if not sym.CONCRETE['on']:
      LL.eval_shape = _EvalShape()
      LL.ShapedArray = lambda shape, dtype=None: A.sym('abs', tuple(shape))
    try:
      for K, stride, kdil, use_bias in [(1, 1, 1, True), (2, 1, 1, True),
                                        (3, 1, 1, False), (2, 2, 1, True),
                                        (2, 1, 2, True), (3, 2, 1, True)]:
        C, F, Lx = 2, 2, 4
        keff = (K - 1) * kdil + 1
        if pad == 'VALID':
          lo = hi = 0
        elif pad == 'SAME':
          out = -(-Lx // stride)
          tot = max((out - 1) * stride + keff - Lx, 0)
          lo, hi = tot // 2, tot - tot // 2
        else:
          lo, hi = pad
        Lo = (Lx + lo + hi - keff) // stride + 1
        if Lo < 1:
          continue
        x = A.sym('x', (1, Lx, C))
        k = A.sym('k', (Lo, K * C, F))
        b = A.sym('b', (Lo, F))
        p = {'kernel': k}
        if use_bias:
          p['bias'] = b
        lay = nn.ConvLocal(F, (K,), strides=(stride,), kernel_dilation=(kdil,),
                           padding=pad if isinstance(pad, str) else [pad],
                           use_bias=use_bias)
        got = lay.apply({'params': p}, x)
        want = []
        for o in range(Lo):
          for f in range(F):
            acc = S(0)
            for c in range(C):
              for w in range(K):
                pos = o * stride + w * kdil - lo
                if 0 <= pos < Lx:
                  acc = acc + x.at((0, pos, c)) * k.at((o, c * K + w, f))
            if use_bias:
              acc = acc + b.at((o, f))
            want.append(acc)
        cases.append(('ConvLocal K=%d s=%d kd=%d bias=%s pad=%r' % (
            K, stride, kdil, use_bias, pad), got, A(want, (1, Lo, F))))
    finally:
      LL.eval_shape, LL.ShapedArray = saved_es, saved_sa
  return _prove(cases, t0)


def conv2d_family(which):
  """2-D convolution (stride (1,2), SAME / VALID / CIRCULAR), Linen and NNX"""
  t0 = time.time()
  cases = []
  H, W, C, F, KH, KW = 3, 4, 1, 2, 2, 3
  with SymEnv():
    for pad, strides in (('VALID', (1, 1)), ('SAME', (1, 1)), ('CIRCULAR', (1, 1)),
                         ('VALID', (1, 2)), ('SAME', (2, 1))):
      x = A.sym('x', (1, H, W, C))
      k = A.sym('k', (KH, KW, C, F))
      b = A.sym('b', (F,))
      conv = nn.Conv(F, (KH, KW), strides=strides, padding=pad,
                     conv_general_dilated=be('conv_general_dilated'))
      got = conv.apply({'params': {'kernel': k, 'bias': b}}, x)

      def pads(size, kk, st):
        if pad == 'VALID':
          return 0, 0
        if pad == 'CIRCULAR':
          return (kk - 1) // 2, kk // 2
        out = -(-size // st)
        tot = max((out - 1) * st + kk - size, 0)
        return tot // 2, tot - tot // 2
      (lh, hh), (lw, hw) = pads(H, KH, strides[0]), pads(W, KW, strides[1])
      OH = (H + lh + hh - KH) // strides[0] + 1
      OW = (W + lw + hw - KW) // strides[1] + 1
      want = []
      for oh, ow, f in idxs((OH, OW, F)):
        acc = S(0)
        for dh, dw, c in idxs((KH, KW, C)):
          ih, iw = oh * strides[0] + dh - lh, ow * strides[1] + dw - lw
          if pad == 'CIRCULAR':
            ih, iw = ih % H, iw % W
          if 0 <= ih < H and 0 <= iw < W:
            acc = acc + x.at((0, ih, iw, c)) * k.at((dh, dw, c, f))
        want.append(acc + b.at((f,)))
      label = 'Conv2D %s strides=%r' % (pad, strides)
      cases.append((label, got, A(want, (1, OH, OW, F))))
      nc = nnx.Conv(C, F, (KH, KW), strides=strides, padding=pad, rngs=nnx.Rngs(0),
                    conv_general_dilated=be('conv_general_dilated'))
      nc.kernel.value, nc.bias.value = R(k), R(b)
      cases.append(('nnx.' + label, nc(R(x)), got))
  return _prove(cases, t0)


def shim_validation(seed):
  t0 = time.time()
  fails = symnp.validate(seed, 2)
  if fails:
    return dict(status='error', err='shim disagrees with real jax on: %r' % fails)
  return dict(status='unsat', queries=40, solver_s=time.time() - t0,
              witness=dict(ops='dot/einsum/conv/reduce_window/pad/take/...'))


def _fam(name):
  def run(**kw):
    (arg,) = kw.values()
    r = globals()[name](arg)
    if r.get('cex') is not None:
      r['cex'] = dict(r['cex'], family=name, arg=arg)
    return r
  run.__name__ = name
  run.__qualname__ = name
  return run


def replay_family(case=None, family=None, arg=None, model=None, **kw):
  """Engine-C replay on the REAL numeric stack: symbols become the numeric values
  of the solver's model (other symbols: seeded values), the layer runs with the real
  jax.numpy / lax (no shim), the reference is evaluated exactly on the same values
  and the two are compared numerically (rtol/atol 2e-4).  Three further seeded
  inputs are tried as well; reproduced = any mismatch."""
  fn = globals()[family]
  saved_tier = TIER['t']
  TIER['t'] = 'thorough'        # the superset grid: contains every case of both tiers
  try:
    for seed in range(4):
      sym.set_concrete(True, model if seed == 0 else None, seed)
      r = fn(arg)
      if r.get('status') != 'unsat':
        return False
    return True
  finally:
    sym.set_concrete(False)
    TIER['t'] = saved_tier



def control_wrong_formula(which):
  """negative control: a deliberately wrong reference must be refuted"""
  x, k = A.sym('x', (2, 3)), A.sym('k', (3, 2))
  with SymEnv():
    got = nn.Dense(2, use_bias=False).apply({'params': {'kernel': k}}, x)
  st, model, nq = sym.prove_equal([(got, ref_contract(x, k, None, 1) + 1)])
  return dict(status=st, queries=nq, cex=dict(case='control') if st == 'sat' else
              None, detail='control')


def replay_control(case=None, **kw):
  return False


EXPLANATION = (
    'C12 (Engine C): the real Linen layers (Dense, DenseGeneral, Einsum, Embed+'
    'attend, LayerNorm, RMSNorm, BatchNorm, Dropout, avg/max/min pool, Conv 1-D) '
    'run through Module.apply on symbolic arrays with jnp/lax/random in the layer '
    'modules rebound to the vf.symnp shim; z3 proves output == independent '
    'direct-sum / statistics reference for EVERY value of every input element, '
    'parameter, running statistic, momentum, epsilon, mask bit and embedding index '
    'at each instantiated configuration, and NNX layer == Linen layer on shared '
    'parameters.')
ASSUMPTIONS = (
    'floats are treated as reals: rounding, overflow, dtype promotion and XLA '
    'kernels are outside the claim',
    'rsqrt is an uninterpreted function with rsqrt(v)^2*v = 1, rsqrt(v) > 0 for v>0',
    'random.bernoulli is replaced by a fresh symbolic Bool mask (mask independent '
    'of the data by construction)',
    'the shim itself (vf/symnp.py) is trusted after its per-run validation against '
    'real jax on random concrete inputs',
    'shapes / configurations beyond the instantiated grid, ConvTranspose, '
    'fp8 layers are NOT covered',
    'jax.core.get_opaque_trace_state compat shim installed by the harness process',
)


def obligations(tier):
  TIER['t'] = tier
  F1 = qualnames(nn.Dense.__call__, nn.DenseGeneral.__call__, nn.Einsum.__call__,
                 nn.Embed.__call__, nn.Embed.attend, nnx.Linear.__call__,
                 nnx.LinearGeneral.__call__, nnx.Einsum.__call__,
                 nnx.Embed.__call__, LD.promote_dtype)
  F2 = qualnames(LN._compute_stats, LN._normalize, nn.LayerNorm.__call__,
                 nn.RMSNorm.__call__, nn.BatchNorm.__call__, nnx.LayerNorm.__call__,
                 nnx.RMSNorm.__call__, nnx.BatchNorm.__call__)
  F3 = qualnames(nn.Dropout.__call__, LP.pool, LP.avg_pool, LP.max_pool,
                 LP.min_pool)
  F4 = qualnames(nn.Conv.__call__, LL._Conv.__call__, nnx.Conv.__call__)
  obs = [Ob('shim_validation', shim_validation, dict(seed=I(0, 0)), kind='smt',
            split=('seed',), timeout=600,
            bounds='vf.symnp vs real jax.numpy/lax on random concrete inputs')]
  for w, nm in enumerate(['dense', 'dense_general', 'einsum', 'embed']):
    obs.append(Ob('formula_' + nm, _fam('dense_family'), dict(which=I(w, w)), kind='smt', replay=replay_family,
                  split=('which',), timeout=900, funcs=F1,
                  bounds='shapes <= 2x2x3, batch dims 0..2, bias on/off'))
  for ci in range(7):
    obs.append(Ob('formula_norm_statistics_lemma_cfg%d' % ci, _fam('norm_family'),
                  dict(which=I(100 + ci, 100 + ci)), kind='smt',
                  replay=replay_family, split=('which',), timeout=900, funcs=F2,
                  bounds='_compute_stats (Linen and NNX) == definition; configs: '
                         'fast / two-pass variance, use_mean, multi-axis, masked'))
  for w, nm in enumerate(['norm_statistics_lemma', 'batch_norm',
                          'layer_rms_norm_given_statistics',
                          'group_instance_norm_given_statistics']):
    if w == 0:
      continue
    obs.append(Ob('formula_' + nm, _fam('norm_family'), dict(which=I(w, w)), kind='smt', replay=replay_family,
                  split=('which',), timeout=900, funcs=F2,
                  bounds='shapes <= 2x2x2 / 3x2, symbolic epsilon>0 and momentum'))
  obs.append(Ob('variance_nonnegative_under_roundoff', _fam('variance_roundoff'),
                dict(which=I(0, 0)), kind='smt', replay=replay_family,
                split=('which',), timeout=600, funcs=F2,
                bounds='x 2x3, rounded means arbitrary reals (sign preserving), '
                       'fast / two-pass variance, with and without mean and mask',
                assumes=('round-off model: every computed mean is an arbitrary real '
                         'constrained only by sign preservation; replay searches '
                         'float32 inputs on the real functions',)))
  for w, nm in enumerate(['dropout', 'pooling']):
    obs.append(Ob('formula_' + nm, _fam('dropout_pool'), dict(which=I(w, w)), kind='smt', replay=replay_family,
                  split=('which',), timeout=900, funcs=F3))
  for pi, nm in enumerate(['SAME', 'VALID', 'CIRCULAR', 'REFLECT', 'CAUSAL',
                           'explicit']):
    obs.append(Ob('formula_conv_' + nm, _fam('conv_family'), dict(pad_i=I(pi, pi)),
                  kind='smt', replay=replay_family, split=('pad_i',), timeout=900, funcs=F4,
                  bounds='1-D, length 5, 2 channels, kernel 1..3, stride 1..2, '
                         'kernel/input dilation 1..2, groups 1..2, bias on/off'))
  for w, nm in enumerate(['SAME', 'VALID', 'explicit', 'CIRCULAR_plain_kernel',
                           'CIRCULAR_is_transpose_of_Conv']):
    obs.append(Ob('formula_conv_transpose_' + nm, _fam('convT_family'),
                  dict(which=I(w, w)), kind='smt', replay=replay_family,
                  split=('which',), timeout=900, funcs=F1,
                  bounds='1-D, L=3, C<=2, F=1, (K, stride, kernel_dilation) in %r, '
                         'plain and transposed kernel, bias, mask, 0..2 batch dims'
                         % (CONVT_GRID,)))
  for w, nm in enumerate(['VALID', 'SAME', 'explicit']):
    obs.append(Ob('formula_conv_local_' + nm, _fam('convlocal_family'),
                  dict(which=I(w, w)), kind='smt', replay=replay_family,
                  split=('which',), timeout=900, funcs=F4,
                  bounds='1-D, L=4, C=F=2, K in 1..3, stride 1..2, kernel dilation '
                         '1..2, per-position bias'))
  obs.append(Ob('control_wrong_formula_is_refuted', control_wrong_formula,
                dict(which=I(0, 0)), kind='smt', split=('which',), timeout=300,
                expect='refute', replay=replay_control))
  obs.append(Ob('formula_conv_2d', _fam('conv2d_family'), dict(which=I(0, 0)),
                kind='smt', replay=replay_family, split=('which',), timeout=900,
                funcs=F4, bounds='3x4 image, 2x3 kernel, strides (1,1),(1,2),(2,1), '
                                 'SAME / VALID / CIRCULAR'))
  return obs
