"""C14 -- filters form a Boolean algebra; grouping is a first-match partition."""
from flax.core import scope as S
from flax import errors
from flax.nnx import filterlib as FL
from flax.nnx import statelib, variablelib
from flax import nnx

from harness.common import ast_string_literals, qualnames
from vf.ob import Ob
from vf.xh import I, B, S as Str, Reject, pick

LINEN_FUNCS = (S.in_filter, S.is_filter_empty, S.filter_to_set, S.union_filters,
               S.subtract_filters, S.intersect_filters, S.group_collections)

# name pool: fresh names + every literal of the functions under test (so the magic
# '__flax_internal_stub__' is a candidate name) + one name no filter may mention
_LITS = [s for s in ast_string_literals(*LINEN_FUNCS) if ' ' not in s][:3]
FILTER_NAMES = ['n0', 'n1'] + _LITS      # names a filter may mention
FRESH = 'zz_unmentioned'                 # col value never mentioned by any filter
SUBSTR = 'n'                            # a proper substring of mentioned names
COLS = FILTER_NAMES + [FRESH, SUBSTR]
NF = len(FILTER_NAMES)

# syntactic forms; each takes two name indices
# (label, constructor, number of names used, reference membership)
_F = [
    ('False', lambda a, b: False, 0, lambda c, a, b: False),
    ('True', lambda a, b: True, 0, lambda c, a, b: True),
    ('str', lambda a, b: a, 1, lambda c, a, b: c == a),
    ('[]', lambda a, b: [], 0, lambda c, a, b: False),
    ('(a,b)', lambda a, b: (a, b), 2, lambda c, a, b: c == a or c == b),
    ('Deny(a)', lambda a, b: S.DenyList(a), 1, lambda c, a, b: c != a),
    ('Deny([a,b])', lambda a, b: S.DenyList([a, b]), 2,
     lambda c, a, b: c != a and c != b),
    ('Deny(True)', lambda a, b: S.DenyList(True), 0, lambda c, a, b: False),
    ('Deny(False)', lambda a, b: S.DenyList(False), 0, lambda c, a, b: True),
    ('Deny(Deny([a]))', lambda a, b: S.DenyList(S.DenyList([a])), 1,
     lambda c, a, b: c == a),
    ('Deny(Deny(Deny(a)))', lambda a, b: S.DenyList(S.DenyList(S.DenyList(a))), 1,
     lambda c, a, b: c != a),
    # --- thorough only below
    ('[a]', lambda a, b: [a], 1, lambda c, a, b: c == a),
    ('{a,b}', lambda a, b: {a, b}, 2, lambda c, a, b: c == a or c == b),
    ('frozenset{a}', lambda a, b: frozenset({a}), 1, lambda c, a, b: c == a),
    ('Deny([])', lambda a, b: S.DenyList([]), 0, lambda c, a, b: True),
    ('Deny(Deny(True))', lambda a, b: S.DenyList(S.DenyList(True)), 0,
     lambda c, a, b: True),
    ('Deny({a,b})', lambda a, b: S.DenyList({a, b}), 2,
     lambda c, a, b: c != a and c != b),
]
NQUICK = 11
FORMS = [(f[0], f[1]) for f in _F]
NFORMS = len(FORMS)
USES = [f[2] for f in _F]
REFS = [f[3] for f in _F]

OPS = [('union', S.union_filters, lambda x, y: x or y),
       ('intersect', S.intersect_filters, lambda x, y: x and y),
       ('subtract', S.subtract_filters, lambda x, y: x and not y)]


def _mk(form, a, b):
  # canonicalise unused name slots so they do not fork
  mk = pick(FORMS, form)[1]
  uses = pick(USES, form)
  if uses < 2 and b != 0:
    raise Reject()
  if uses < 1 and a != 0:
    raise Reject()
  return mk(FILTER_NAMES[a], FILTER_NAMES[b])


def _ref_in(form, a, b, col):
  """independent reference semantics of each form"""
  return pick(REFS, form)(col, FILTER_NAMES[a], FILTER_NAMES[b])


def algebra(op, f1, f2, a1, b1, a2, b2, c):
  """membership(op(x, y), col) == boolean op of memberships, for every col, and
  the reference semantics of each operand form; emptiness of the result."""
  x, y = _mk(f1, a1, b1), _mk(f2, a2, b2)
  col = COLS[c]
  name, fn, bop = OPS[op]
  mx, my = S.in_filter(x, col), S.in_filter(y, col)
  if mx != _ref_in(f1, a1, b1, col) or my != _ref_in(f2, a2, b2, col):
    return False
  r = fn(x, y)
  if S.in_filter(r, col) != bool(bop(mx, my)):
    return False
  # operands untouched
  return x == _mk(f1, a1, b1) and y == _mk(f2, a2, b2)


def emptiness(op, f1, f2, a1, b1, a2, b2):
  """is_filter_empty(f) <=> no collection name matches f, on operands and on every
  result of the algebra (COLS contains every mentioned name, every literal of the
  code under test and one unmentioned name)."""
  x, y = _mk(f1, a1, b1), _mk(f2, a2, b2)
  r = OPS[op][1](x, y)
  for f in (x, y, r):
    nomatch = not any(S.in_filter(f, c) for c in COLS)
    if S.is_filter_empty(f) != nomatch:
      return False
  return True


def emptiness_free(f1, a1, b1, col):
  """bug hunting: free-string collection name against is_filter_empty"""
  x = _mk(f1, a1, b1)
  if S.is_filter_empty(x) and S.in_filter(x, col):
    return False
  return True


def invalid_filter(k, c):
  """non-filters raise InvalidFilterError, never a verdict"""
  bad = pick([3, 2.5, None, S.DenyList(7)], k)
  for fn in (lambda: S.in_filter(bad, COLS[c]), lambda: S.is_filter_empty(bad)):
    try:
      fn()
      return False
    except errors.InvalidFilterError:
      pass
  return True


def grouping(rot, f0, f1, f2, a0, a1, a2, nf):
  """group_collections: every collection in exactly the first matching group,
  values copied, len(groups)==len(filters)."""
  keys = (COLS + COLS)[rot:rot + len(COLS)]
  xs = {k: {'v': i} for i, k in enumerate(keys)}
  filters = []
  for f, a in ((f0, a0), (f1, a1), (f2, a2))[:nf]:
    filters.append(_mk(f, a, 0) if pick(USES, f) < 2 else _mk(f, a, (a + 1) % NF))
  groups = S.group_collections(xs, filters)
  if len(groups) != len(filters):
    return False
  for i, k in enumerate(keys):
    first = None
    for gi, f in enumerate(filters):
      if S.in_filter(f, k):
        first = gi
        break
    for gi, g in enumerate(groups):
      if (k in g) != (gi == first):
        return False
      if k in g and (g[k] != {'v': i} or g[k] is xs[k]):
        return False
  return all(set(g) <= set(keys) for g in groups)


# ---------------------------------------------------------------- NNX filters
class _Tagged(nnx.Variable):
  pass


class _SubParam(nnx.Param):
  """a Variable type whose superclass is itself a usual filter"""


TAGS = ['t0', 't1']
KEYS = ['k0', 'k1', 3]
VTYPES = [nnx.Param, nnx.BatchStat, _Tagged, nnx.Variable, _SubParam]
TAGV = [None, 't0', 't1', 't']      # 't' is a proper substring of the others

# (label, constructor, reference predicate(path, vtype, tag))
LEAVES = [
    ('Param', lambda: nnx.Param, lambda p, t, g: issubclass(t, nnx.Param)),
    ("'t0'", lambda: 't0', lambda p, t, g: g == 't0'),
    ("PathContains('k1')", lambda: FL.PathContains('k1'), lambda p, t, g: 'k1' in p),
    ('...', lambda: ..., lambda p, t, g: True),
    ('False', lambda: False, lambda p, t, g: False),
    ('BatchStat', lambda: nnx.BatchStat,
     lambda p, t, g: issubclass(t, nnx.BatchStat)),
    # --- beyond the reduced set
    ('Variable', lambda: nnx.Variable, lambda p, t, g: True),
    ("WithTag('t1')", lambda: FL.WithTag('t1'), lambda p, t, g: g == 't1'),
    ('PathContains(3)', lambda: FL.PathContains(3), lambda p, t, g: 3 in p),
    ("PathIn(('k0','k1'),('k1',3))", lambda: FL.PathIn(('k0', 'k1'), ('k1', 3)),
     lambda p, t, g: p in (('k0', 'k1'), ('k1', 3))),
    ('True', lambda: True, lambda p, t, g: True),
    ('None', lambda: None, lambda p, t, g: False),
    ('OfType(_Tagged)', lambda: FL.OfType(_Tagged),
     lambda p, t, g: issubclass(t, _Tagged)),
    ('Everything()', lambda: FL.Everything(), lambda p, t, g: True),
    ('Nothing()', lambda: FL.Nothing(), lambda p, t, g: False),
    ("'t'", lambda: 't', lambda p, t, g: g == 't'),
    ('_SubParam', lambda: _SubParam, lambda p, t, g: issubclass(t, _SubParam)),
]
# leaf kinds offered to the split APIs: the reduced set + a superclass type filter
# (Variable) and a subclass type filter (_SubParam), so that an earlier filter can be
# a superclass of a later one
SPLIT_LEAVES = [0, 1, 2, 3, 4, 5, 6, 16]
NLEAF = len(LEAVES)
NRED = 6
EVERY = (3, 10)  # leaf indices that are `...` / True


def _value(vt, tg, as_state):
  vtype = pick(VTYPES, vt)
  tag = pick(TAGV, tg)
  v = vtype(1) if tag is None else vtype(1, tag=tag)
  if as_state:
    v = v.to_state()
  return v, vtype, tag


def nnx_leaf(c, p0, p1, vt, tg, as_state):
  """to_predicate(leaf)(path, value) == reference predicate, every leaf kind"""
  _, mk, ref = pick(LEAVES, c)
  v, vtype, tag = _value(vt, tg, as_state)
  path = (pick(KEYS, p0), pick(KEYS, p1))
  return bool(FL.to_predicate(mk())(path, v)) == bool(ref(path, vtype, tag))


COMB = [
    ('Not(x)', lambda x, y: FL.Not(x), lambda x, y: not x),
    ('Any(x,y)', lambda x, y: FL.Any(x, y), lambda x, y: x or y),
    ('All(x,y)', lambda x, y: FL.All(x, y), lambda x, y: x and y),
    ('[x,y]', lambda x, y: [x, y], lambda x, y: x or y),
    ('(x,y)', lambda x, y: (x, y), lambda x, y: x or y),
    ('Not(Any(x,y))', lambda x, y: FL.Not(FL.Any(x, y)), lambda x, y: not (x or y)),
    ('All(x,Not(y))', lambda x, y: FL.All(x, FL.Not(y)), lambda x, y: x and not y),
    ('Any(All(x,y),Not(x))', lambda x, y: FL.Any(FL.All(x, y), FL.Not(x)),
     lambda x, y: (x and y) or not x),
    ('Any()', lambda x, y: FL.Any(), lambda x, y: False),
    ('All()', lambda x, y: FL.All(), lambda x, y: True),
    ('(x,(y,))', lambda x, y: (x, (y,)), lambda x, y: x or y),
    ('All((x,y),Not(x))', lambda x, y: FL.All((x, y), FL.Not(x)),
     lambda x, y: (x or y) and not x),
    ('All([x,y],y)', lambda x, y: FL.All([x, y], y), lambda x, y: (x or y) and y),
    ('Any((x,y),All(x,y))', lambda x, y: FL.Any((x, y), FL.All(x, y)),
     lambda x, y: x or y),
    ('Not((x,y))', lambda x, y: FL.Not((x, y)), lambda x, y: not (x or y)),
    ('Not([x,[y]])', lambda x, y: FL.Not([x, [y]]), lambda x, y: not (x or y)),
    ('All(Any(x,y),(y,))', lambda x, y: FL.All(FL.Any(x, y), (y,)),
     lambda x, y: (x or y) and y),
    ('Any(All((x,y)),Not(y))', lambda x, y: FL.Any(FL.All((x, y)), FL.Not(y)),
     lambda x, y: (x or y) or not y),
]


def nnx_combine(comb, c1, c2, p0, vt, tg):
  """Any/All/Not/sequence filters == Boolean combination of their parts"""
  _, mk, ref = pick(COMB, comb)
  _, mk1, ref1 = pick(LEAVES, c1)
  _, mk2, ref2 = pick(LEAVES, c2)
  v, vtype, tag = _value(vt, tg, False)
  path = ('k0', pick(KEYS, p0))
  got = FL.to_predicate(mk(mk1(), mk2()))(path, v)
  want = ref(ref1(path, vtype, tag), ref2(path, vtype, tag))
  return bool(got) == bool(want)


PATHS = [('k0', 'k1'), ('k1', 3), ('k2', 'k0')]


def nnx_split_types(c0, c1, vt0, vt1, which):
  """plain type filters, incl. superclass-before-subclass orders"""
  idx = [0, 5, 6, 7]      # positions in SPLIT_LEAVES: Param, BatchStat, Variable,
  return nnx_split(2, pick(idx, c0), pick(idx, c1), 0, 2, vt0, vt1, 0, 0, 0, 0,
                   which)     # _SubParam


def nnx_split(n, c0, c1, c2, nf, vt0, vt1, vt2, tg0, tg1, tg2, which):
  """_split_state / State.split / filter / split_flat_state: first-match partition,
  nothing lost or duplicated, `...`/True before the end raises."""
  vals = []
  for vt, tg in ((vt0, tg0), (vt1, tg1), (vt2, tg2))[:n]:
    vals.append(_value(vt, tg, True))
  paths = PATHS[:n]
  codes = []
  for c in (c0, c1, c2)[:nf]:
    codes.append(pick(SPLIT_LEAVES, c))         # concrete leaf index per path
  leaves = [LEAVES[c] for c in codes]
  filters = [lf[1]() for lf in leaves]
  flat = [(p, v[0]) for p, v in zip(paths, vals)]
  expect = [[] for _ in range(nf + 1)]
  for p, (v, vtype, tag) in zip(paths, vals):
    for gi, lf in enumerate(leaves):
      if lf[2](p, vtype, tag):
        expect[gi].append(p)
        break
    else:
      expect[nf].append(p)
  bad_order = any(
      codes[i] in EVERY and not all(cc in EVERY for cc in codes[i + 1:])
      for i in range(nf - 1))
  try:
    if which == 0:
      got = statelib._split_state(statelib.FlatState(flat, sort=True), *filters)
      got = [list(g.paths) for g in got]
    elif which == 1:
      st = statelib.from_flat_state(flat)
      r = statelib.filter_state(st, *filters)
      r = (r,) if nf == 1 else r
      got = [list(statelib.to_flat_state(g).paths) for g in r] + [expect[nf]]
    elif which == 2:
      st = statelib.from_flat_state(flat)
      try:
        r = st.split(*filters)
      except ValueError:
        return bad_order or len(expect[nf]) > 0
      if expect[nf]:
        return False
      r = (r,) if nf == 1 else r
      got = [list(statelib.to_flat_state(g).paths) for g in r] + [[]]
    else:
      try:
        r = variablelib.split_flat_state(flat, tuple(filters))
      except ValueError:
        return bad_order or len(expect[nf]) > 0
      if expect[nf]:
        return False
      got = [[p for p, _ in g] for g in r] + [[]]
  except ValueError:
    return bad_order
  if bad_order:
    return False
  return got == expect


EXPLANATION = (
    'C14: Linen filter algebra over %d syntactic forms x %d forms x 3 operators, '
    'names drawn by symbolic index from the pool %r (fresh names + every string '
    'literal in the current source of the filter functions), col from pool + one '
    'unmentioned name; NNX filter expressions of depth<=3 against an independent '
    'reference evaluator.' % (NFORMS, NFORMS, COLS))
ASSUMPTIONS = (
    'filter functions treat names only via ==/hash, so the finite name pool (all '
    'mentioned names, all source literals, one unmentioned name) represents every '
    'collection name',
    'jax.core.get_opaque_trace_state compat shim installed by the harness process',
)


def obligations(tier):
  F = qualnames(*LINEN_FUNCS)
  quick = tier == 'quick'
  nm = I(0, NF - 1)
  # quick: the forms that reach every branch of the algebra; thorough: all
  nforms = NQUICK if quick else NFORMS
  fm = I(0, nforms - 1)
  obs = [
      Ob('linen_algebra', algebra,
         dict(op=I(0, 2), f1=fm, f2=fm, a1=nm, b1=nm,
              a2=nm, b2=nm, c=I(0, len(COLS) - 1)),
         split=('op', 'f1'), timeout=240, funcs=F,
         bounds='%d forms (DenyList nesting <=3) x %d forms x 3 ops, <=2 names per '
                'filter from pool %r, col in %r' % (nforms, nforms, FILTER_NAMES,
                                                    COLS)),
      Ob('linen_emptiness', emptiness,
         dict(op=I(0, 2), f1=fm, f2=fm, a1=nm, b1=nm,
              a2=nm, b2=nm), split=('op', 'f1'), timeout=240, funcs=F,
         bounds='same forms; emptiness compared with non-membership of every name '
                'in %r' % (COLS,)),
      Ob('linen_invalid_filter', invalid_filter,
         dict(k=I(0, 3), c=I(0, len(COLS) - 1)), timeout=60, funcs=F),
      Ob('linen_grouping', grouping,
         dict(rot=I(0, len(COLS) - 1), f0=fm, f1=fm, f2=fm, a0=nm, a1=nm, a2=nm,
              nf=I(0, 2 if quick else 3)),
         split=('rot', 'nf', 'f0'), timeout=240, funcs=F,
         bounds='variables dict with every pool name as a collection (key order '
                'rotated), <=%d filters of any form' % (2 if quick else 3)),
      Ob('linen_grouping3', grouping,
         dict(rot=I(0, 0), f0=I(0, 6), f1=I(0, 6), f2=I(0, 6), a0=nm, a1=nm,
              a2=nm, nf=I(3, 3)),
         split=('f0', 'f1'), timeout=240, funcs=F,
         bounds='3 filters from the first 7 forms (a later non-adjacent filter '
                'may match what an earlier one took)'),
      Ob('linen_emptiness_free_string', emptiness_free,
         dict(f1=fm, a1=nm, b1=nm, col=Str(24)), split=('f1',),
         timeout=20 if tier == 'quick' else 90, hunt=True, funcs=F,
         bounds='free str col, len<=24 (bug hunting, not expected to exhaust)'),
  ]
  NF_ = qualnames(FL.to_predicate, FL.filters_to_predicates, FL.WithTag,
                  FL.PathContains, FL.PathIn, FL.OfType, FL.Any, FL.All, FL.Not,
                  statelib._split_state, statelib.split_state,
                  statelib.filter_state, variablelib.split_flat_state)
  red = I(0, (NRED if quick else NLEAF) - 1)
  obs += [
      Ob('nnx_leaf', nnx_leaf,
         dict(c=I(0, NLEAF - 1), p0=I(0, 2), p1=I(0, 2), vt=I(0, 4), tg=I(0, 3),
              as_state=B()), split=('c',), timeout=240, funcs=NF_,
         bounds='%d leaf filter kinds x paths over 3 keys (len 2) x 4 Variable '
                'types x 3 tags x {Variable, VariableState}' % NLEAF),
      Ob('nnx_combine', nnx_combine,
         dict(comb=I(0, len(COMB) - 1), c1=red, c2=red, p0=I(0, 1),
              vt=I(0, 1 if quick else 3), tg=I(0, 1 if quick else 2)),
         split=('comb',), timeout=240, funcs=NF_,
         bounds='%d combinators (Any/All/Not/list/tuple, depth<=3) over leaf pairs '
                'from %s' % (len(COMB), [l[0] for l in LEAVES[:red.hi + 1]])),
      Ob('nnx_split_type_filters', nnx_split_types,
         dict(c0=I(0, 3), c1=I(0, 3), vt0=I(0, 4), vt1=I(0, 4), which=I(0, 3)),
         split=('which', 'c0'), timeout=300, funcs=NF_,
         bounds='2 entries of 5 Variable types (incl. a subclass of Param), 2 plain '
                'type filters from {Param, BatchStat, Variable, subclass}: first '
                'match wins also when an earlier filter is a superclass of a later '
                'one'),
      Ob('nnx_split', nnx_split,
         dict(n=I(2, 2) if quick else I(1, 2), c0=I(0, NRED - 1),
              c1=I(0, NRED - 1), c2=I(0, NRED - 1),
              nf=I(1, 2 if quick else 3), vt0=I(0, 2), vt1=I(0, 2), vt2=I(0, 2),
              tg0=I(0, 1), tg1=I(0, 1), tg2=I(0, 1), which=I(0, 3)),
         split=('which', 'nf', 'c0') if quick else ('which', 'nf', 'c0', 'c1'),
         timeout=300, funcs=NF_,
         bounds='%s entries, <=%d filters from %d leaf kinds, 3 Variable types x '
                '2 tags per entry, 4 split APIs (_split_state, filter_state, '
                'State.split, split_flat_state)' % (
                    '2' if quick else '1..3', 2 if quick else 3, red.hi + 1)),
  ]
  return obs
