"""C11 -- checkpoint directory survives crashes; retention and step ordering exact
(legacy msgpack back-end, in-memory file system with symbolic crash point)."""
import os
import types

from flax.training import checkpoints as CK
from flax import errors
from flax import serialization

from harness.common import qualnames
from vf.ob import Ob
from vf.xh import I, B, Reject, pick, concretize, untraced


class Crash(BaseException):
  """process death at a file-system operation"""


class MemFS:
  """In-memory stand-in for flax.io.  Every mutating operation is a crash point:
  op number `crash_at` raises Crash *before* taking effect; a file being written is
  visible with torn (half) content between open and close."""

  class NotFoundError(Exception):
    pass

  def __init__(self):
    self.files = {}      # path -> bytes
    self.dirs = set()
    self.ops = 0
    self.crash_at = -1
    self.log = []

  # -- crash machinery
  def _tick(self, what):
    if self.ops == self.crash_at:
      self.log.append('CRASH before ' + what)
      raise Crash(what)
    self.ops += 1
    self.log.append(what)

  # -- API used by flax.training.checkpoints
  def makedirs(self, path):
    self._tick('makedirs')
    p = path
    while p and p != '/':
      self.dirs.add(p)
      p = os.path.dirname(p)

  def GFile(self, name, mode):
    return _MemFile(self, name, mode)

  def listdir(self, path):
    if path not in self.dirs:
      raise self.NotFoundError(path)
    out = []
    for p in list(self.files) + list(self.dirs):
      if os.path.dirname(p) == path and p != path:
        out.append(os.path.basename(p))
    return sorted(set(out))

  def isdir(self, path):
    return path in self.dirs

  def exists(self, path):
    return path in self.files or path in self.dirs

  def rename(self, src, dst, overwrite=False):
    if self.exists(dst) and not overwrite:
      raise errors.AlreadyExistsError(dst)
    self._tick('rename')
    self.files[dst] = self.files.pop(src)

  def remove(self, path):
    self._tick('remove')
    if path not in self.files:
      raise FileNotFoundError(path)
    del self.files[path]

  def rmtree(self, path):
    self._tick('rmtree')
    for p in list(self.files):
      if p == path or p.startswith(path + '/'):
        del self.files[p]
    for p in list(self.dirs):
      if p == path or p.startswith(path + '/'):
        self.dirs.discard(p)

  def getsize(self, path):
    return len(self.files[path])


class _MemFile:
  def __init__(self, fs, name, mode):
    self.fs, self.name, self.mode = fs, name, mode
    self.buf = b''

  def __enter__(self):
    if 'w' in self.mode:
      self.fs._tick('open-w')
      self.fs.files[self.name] = b''          # truncated file is visible
    elif self.name not in self.fs.files:
      raise FileNotFoundError(self.name)
    return self

  def write(self, data):
    if isinstance(data, str):
      data = data.encode()
    half = data[:len(data) // 2]
    self.fs.files[self.name] = self.buf + half   # torn content hits the disk
    self.fs._tick('write')
    self.buf += data
    self.fs.files[self.name] = self.buf

  def read(self, n=-1):
    return self.fs.files[self.name]

  def seekable(self):
    return False

  def __exit__(self, *a):
    if 'w' in self.mode and a[0] is None:
      self.fs._tick('close')
    return False


class _Noop:
  def __getattr__(self, name):
    return lambda *a, **k: None


class _Time:
  @staticmethod
  def time():
    return 0.0


class _Ocp:
  """only what the legacy path touches"""
  class utils:
    TMP_DIR_SUFFIX = '.orbax-checkpoint-tmp-'

    @staticmethod
    def record_saved_duration(t):
      return None
  AsyncCheckpointer = type('AsyncCheckpointer', (), {})


class _JaxStub:
  monitoring = _Noop()

  @staticmethod
  def process_count():
    return 1

  def __getattr__(self, name):
    import jax
    return getattr(jax, name)


class Env:
  """rebinding of module globals in flax.training.checkpoints (restored on exit)"""
  NAMES = ('io', 'time', 'logging', 'monitoring', 'jax', 'ocp')

  def __init__(self, fs):
    self.fs = fs

  def __enter__(self):
    self.saved = {n: getattr(CK, n) for n in self.NAMES}
    CK.io = self.fs
    CK.time = _Time()
    CK.logging = _Noop()
    CK.monitoring = _Noop()
    CK.jax = _JaxStub()
    CK.ocp = _Ocp
    self.cfg = CK.config.flax_use_orbax_checkpointing
    CK.config.update('flax_use_orbax_checkpointing', False)
    return self

  def __exit__(self, *a):
    for n, v in self.saved.items():
      setattr(CK, n, v)
    CK.config.update('flax_use_orbax_checkpointing', self.cfg)
    return False


D = '/proc/vf_memfs/ck'   # never a real directory: a leak to the real FS fails loudly


def tree_for(step, gen):
  return {'step': step, 'gen': gen, 'w': [1, 2, 3]}


TARGET = {'step': -7, 'gen': -7, 'w': [0, 0, 0]}


def ref_save(present, step, keep, every, overwrite):
  """reference retention policy; present: dict step -> gen.  Returns
  (ok, new_present_steps_sorted)"""
  steps = sorted(present)
  if not overwrite:
    if step in present or (steps and step < steps[-1]):
      return False, steps
  new = sorted(set(steps) | {step})
  if overwrite:
    new = [s for s in new if s <= step]
  if len(new) > keep:
    old, newest = new[:-keep], new[-keep:]
    kept = []
    last = None
    for s in old:
      if every and s and (last is None or s - last >= every):
        last = s
        kept.append(s)
    new = kept + newest
  return True, new


def listing(fs):
  with Env(fs):
    return [float(s) for s in CK.available_steps(D, step_type=float)]


def do_save(fs, step, gen, keep, every, overwrite, am=None):
  with Env(fs):
    return CK.save_checkpoint(D, tree_for(step, gen), step, keep=keep,
                              overwrite=overwrite, keep_every_n_steps=every,
                              async_manager=am)


def check_dir_consistent(fs, present):
  """latest / restore agree with `present` (step -> gen) and never see tmp/torn"""
  with Env(fs):
    latest = CK.latest_checkpoint(D)
    if not present:
      if latest is not None:
        return False
      return CK.restore_checkpoint(D, 'untouched', parallel=False) == 'untouched'
    top = max(present)
    if latest != '%s/checkpoint_%s' % (D, top):
      return False
    got = CK.restore_checkpoint(D, TARGET, parallel=False)
    if got != tree_for(top, present[top]):
      return False
    for s, g in present.items():
      if CK.restore_checkpoint(D, TARGET, step=s, parallel=False) != tree_for(s, g):
        return False
    return True


def history(n, s0, s1, s2, keep, every, o0, o1, o2, crash_at, retry_later):
  """n saves; the last one may crash at FS operation `crash_at` (symbolic).  After
  every completed save the directory equals the reference policy; after a crash the
  directory still restores a complete checkpoint (previous latest or the new one),
  and saving can continue (retry of the step / a later step)."""
  steps = []
  for s in (s0, s1, s2)[:n]:
    steps.append(concretize(s, 0, 5))       # paths are built from the step
  for s in (s0, s1, s2)[n:]:
    if s != 0:
      raise Reject()
  keep = concretize(keep, 1, 3)
  ev = pick([None, 1, 2, 3], every)
  ovs = [bool(o) for o in (o0, o1, o2)]
  fs = MemFS()
  present = {}                   # step -> generation actually on disk
  for i in range(n):
    last = i == n - 1
    fs.ops = 0
    fs.crash_at = crash_at if last else -1
    ok_ref, new_steps = ref_save(present, steps[i], keep, ev, ovs[i])
    try:
      do_save(fs, steps[i], i, keep, ev, ovs[i])
      completed = True
    except errors.InvalidCheckpointError:
      if ok_ref:
        return False
      if sorted(listing(fs)) != [float(s) for s in sorted(present)]:
        return False             # rejected save changed something
      completed = None
    except Crash:
      completed = False
    if completed is True:
      if not ok_ref:
        return False
      present = {s: (i if s == steps[i] else present[s]) for s in new_steps}
      if listing(fs) != [float(s) for s in new_steps]:
        return False
      if any(p.endswith('tmp') for p in fs.files):
        return False
      if not check_dir_consistent(fs, present):
        return False
    elif completed is False:
      # ---- the process died during save i.  New process, same directory.
      fs.crash_at = -1
      on_disk = listing(fs)
      new_committed = float(steps[i]) in on_disk and (
          steps[i] not in present or
          _gen_on_disk(fs, steps[i]) == i)
      # whatever is listed must be complete: each file either an old checkpoint
      # with its old content or the new one with the new content
      seen = {}
      for s in on_disk:
        s_int = int(s)
        g = _gen_on_disk(fs, s_int)
        if g is None:
          return False           # torn / unreadable file visible as a checkpoint
        if s_int == steps[i] and g == i:
          seen[s_int] = g
        elif s_int in present and present[s_int] == g:
          seen[s_int] = g
        else:
          return False
      if not check_dir_consistent(fs, seen):
        return False
      # latest is the previous latest or the new checkpoint
      prev_latest = max(present) if present else None
      now_latest = max(seen) if seen else None
      if ok_ref:
        if now_latest not in (prev_latest, steps[i]):
          # (overwrite may already have removed newer ones only after commit)
          if not (ovs[i] and new_committed):
            return False
      # ---- continue saving
      if retry_later == 0:
        nxt, ov = steps[i], ovs[i]
      elif retry_later == 1:
        nxt, ov = (max(list(seen) + [steps[i]]) + 1), False
      else:
        # an OLDER step than what is committed: must be rejected, nothing changes
        nxt, ov = (min(list(seen) + [steps[i]]) - 1), False
        if nxt < 0:
          raise Reject()
      ok2, steps2 = ref_save(seen, nxt, keep, ev, ov)
      try:
        do_save(fs, nxt, 9, keep, ev, ov)
      except errors.InvalidCheckpointError:
        # only legitimate when the reference also rejects (already committed)
        return not ok2
      if not ok2:
        return False
      seen2 = {s: (9 if s == nxt else seen[s]) for s in steps2}
      if listing(fs) != [float(s) for s in steps2]:
        return False
      if any(p.endswith('tmp') for p in fs.files):
        return False
      return check_dir_consistent(fs, seen2)
  return True


def _gen_on_disk(fs, step):
  data = fs.files.get('%s/checkpoint_%s' % (D, step))
  if data is None:
    return None
  try:
    t = untraced(serialization.msgpack_restore, data)
  except Exception:
    return None
  if not isinstance(t, dict) or t.get('step') != step or t.get('w') != {
      '0': 1, '1': 2, '2': 3}:
    return None
  return t.get('gen')


# ------------------------------------------------------------------ step ordering
STEP_POOL = [0, 1, 2, 10, 100, -1, -10, 0.5, 1.5, 10.25, -0.5, 1e-05, 2e+20, 1e+16,
             -3e-07, 9, 11]


def step_ordering(i, j, k):
  """'latest' is the numerically largest step for ints, floats, negatives and
  exponent notation; available_steps is numerically sorted"""
  idx = [i, j, k]
  if not (i < j < k):
    raise Reject()
  steps = sorted(pick(STEP_POOL, t) for t in idx)
  fs = MemFS()
  for g, s in enumerate(steps):
    do_save(fs, s, g, 5, None, False)
  with Env(fs):
    if CK.latest_checkpoint(D) != '%s/checkpoint_%s' % (D, steps[-1]):
      return False
    if CK.available_steps(D, step_type=float) != [float(s) for s in steps]:
      return False
    got = CK.restore_checkpoint(D, TARGET, parallel=False)
    if got != tree_for(steps[-1], 2):
      return False
    names = ['%s/checkpoint_%s' % (D, s) for s in steps]
    if CK.natural_sort(list(reversed(names))) != names:
      return False
    for s in steps:
      if CK._checkpoint_path_step('%s/checkpoint_%s' % (D, s)) != float(s):
        return False
  # an older step is rejected by the legacy back-end and changes nothing
  try:
    do_save(fs, steps[0], 7, 5, None, False)
    return False
  except errors.InvalidCheckpointError:
    pass
  with Env(fs):
    return CK.available_steps(D, step_type=float) == [float(s) for s in steps]


class StubExecutor:
  """executor whose task runs at submit (eager) or only when its result is awaited"""

  def __init__(self, defer):
    self.defer = defer

  def submit(self, task):
    return _Fut(task, self.defer)


class _Fut:
  def __init__(self, task, defer):
    self.task, self._done = task, False
    if not defer:
      self.result()

  def done(self):
    return self._done

  def result(self):
    if not self._done:
      self._done = True
      self.task()


def async_equals_sync(n, s0, s1, s2, keep, every, d0, d1, d2):
  """saves issued through an AsyncManager leave the same directory as the same
  saves done synchronously, for every completion schedule"""
  steps = []
  for s in (s0, s1, s2)[:n]:
    steps.append(concretize(s, 0, 4))
  for s in (s0, s1, s2)[n:]:
    if s != 0:
      raise Reject()
  if sorted(set(steps)) != steps:
    raise Reject()
  keep = concretize(keep, 1, 3)
  ev = pick([None, 1, 2], every)
  defers = [bool(d) for d in (d0, d1, d2)]
  fs_sync, fs_async = MemFS(), MemFS()
  for i, s in enumerate(steps):
    do_save(fs_sync, s, i, keep, ev, False)
  am = CK.AsyncManager()
  am.executor.shutdown()
  for i, s in enumerate(steps):
    am.executor = StubExecutor(defers[i])
    do_save(fs_async, s, i, keep, ev, False, am=am)
  with Env(fs_async):
    am.wait_previous_save()
  return fs_sync.files == fs_async.files


EXPLANATION = (
    'C11 (legacy msgpack back-end): save_checkpoint/latest_checkpoint/'
    'available_steps/restore_checkpoint run against an in-memory file system '
    'rebound as flax.training.checkpoints.io; the FS operation at which the process '
    'dies is a symbolic int (every operation boundary + torn write), histories of '
    'saves with symbolic steps/keep/keep_every_n_steps/overwrite are compared with '
    'a reference retention model after every completed save and after the crash + '
    'continuation.')
ASSUMPTIONS = (
    'Orbax back-end (atomicity lives in orbax/tensorstore) is NOT covered; only the '
    'legacy path and the shared retention code',
    'in-memory FS: rename atomic, a file under write is visible with torn content '
    'until close, crash = exception before an operation takes effect',
    'time/logging/monitoring/jax.monitoring/ocp.utils.record_saved_duration stubbed '
    'to no-ops in flax.training.checkpoints',
    'AsyncManager executor replaced by a stub that runs the task at submit or when '
    'awaited (real thread timing not modelled)',
    'jax.core.get_opaque_trace_state compat shim installed by the harness process',
)


def obligations(tier):
  quick = tier == 'quick'
  F = qualnames(CK.save_checkpoint, CK._check_overwrite_error,
                CK._save_main_ckpt_file, CK._save_commit, CK._remove_invalid_ckpts,
                CK.latest_checkpoint, CK.available_steps, CK._all_checkpoints,
                CK.restore_checkpoint, CK.natural_sort, CK._checkpoint_path_step,
                CK.AsyncManager.save_async, CK.AsyncManager.wait_previous_save)
  st = I(0, 3 if quick else 2)      # thorough: 3 saves over steps 0..2
  nmax = 2 if quick else 3
  return [
      Ob('crash_and_retention', history,
         dict(n=I(1, nmax), s0=st, s1=st, s2=st, keep=I(1, 2),
              every=I(0, 2), o0=B(), o1=B(), o2=B(),
              crash_at=I(-1, 12), retry_later=I(0, 2)),
         split=('n', 's0', 's1', 'every') if quick else ('n', 's0', 's1', 's2',
                                                           'every'),
         timeout=900, funcs=F,
         bounds='<=%d saves, steps 0..%d, keep 1..%d, keep_every_n_steps in '
                '{None,1,2%s}, overwrite per save, crash at FS op -1(no crash)..12 '
                'of the last save incl. torn write, then retry same step / save a '
                'later step / try an older step' % (nmax, st.hi, 2, '')),
      Ob('step_ordering', step_ordering,
         dict(i=I(0, len(STEP_POOL) - 1), j=I(0, len(STEP_POOL) - 1),
              k=I(0, len(STEP_POOL) - 1)), split=('i',), timeout=600, funcs=F,
         bounds='all 3-subsets of the step pool %r' % (STEP_POOL,)),
      Ob('async_equals_sync', async_equals_sync,
         dict(n=I(1, 3), s0=I(0, 4), s1=I(0, 4), s2=I(0, 4), keep=I(1, 2),
              every=I(0, 2), d0=B(), d1=B(), d2=B()),
         split=('n', 's0'), timeout=600, funcs=F,
         bounds='<=3 ascending saves, every eager/deferred completion schedule'),
  ]
