"""Canaries run first in every batch: the engine must refute a false claim with a
replayable model, must exhaust a small true one, and metaclass-constructed objects
(nnx.Object) must be built correctly under tracing."""
from vf.ob import Ob
from vf.xh import I


def _false_claim(a, b):
  return not (a * 3 == b + 7 and b > 100)


def _true_claim(a, b):
  return (a + b) - b == a


def _meta(a):
  from flax import nnx

  class M(nnx.Module):
    def __init__(self, v):
      self.p = nnx.Param(v)
  m = M(a)
  return hasattr(m, '_object__state') and m.p.value == a


def obligations(tier):
  return [
      Ob('canary_refutes_false_claim', _false_claim,
         dict(a=I(0, 1000), b=I(0, 1000)), timeout=30, expect='refute'),
      Ob('canary_exhausts_true_claim', _true_claim,
         dict(a=I(0, 9), b=I(-5, 5)), timeout=30),
      Ob('canary_metaclass_objects', _meta, dict(a=I(0, 3)), timeout=30),
  ]
