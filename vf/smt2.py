"""Second-solver cross-check: dump a z3 solver's assertions as SMT-LIB2 and ask the
cvc5 binary.  Any `(error`, timeout or disagreement is reported as inconclusive."""
import os
import shutil
import subprocess
import tempfile


def cvc5_verdict(solver, timeout_s=60):
  exe = shutil.which('cvc5')
  if exe is None:
    return 'unavailable'
  txt = '(set-logic ALL)\n' + solver.to_smt2().replace('ubv_to_int', 'bv2nat')
  d = os.path.join(os.path.dirname(os.path.dirname(os.path.abspath(__file__))),
                   '.work')
  os.makedirs(d, exist_ok=True)
  fd, path = tempfile.mkstemp(suffix='.smt2', dir=d)
  try:
    with os.fdopen(fd, 'w') as f:
      f.write(txt)
    try:
      r = subprocess.run([exe, '--strings-exp', '--tlimit=%d' % (timeout_s * 1000),
                          path], capture_output=True, text=True,
                         timeout=timeout_s + 30)
    except subprocess.TimeoutExpired:
      return 'timeout'
    out = (r.stdout + r.stderr).strip()
    if '(error' in out or 'rror' in out.split('\n')[0:1][0] if out else False:
      return 'error: ' + out[:120]
    first = out.split('\n')[0].strip() if out else ''
    return first if first in ('sat', 'unsat', 'unknown') else 'error: ' + out[:120]
  finally:
    try:
      os.remove(path)
    except OSError:
      pass
