#!/usr/bin/env python3
"""seedtest.py <PID> <K> [--baseline] : confirm a seeded change and run the check against it.
Inputs /tmp/mut/<PID>_out/<K>/{patch.diff,demo.py,notes.txt}; scratch worktree /tmp/mut/<PID>.
Writes /verif/seeded/<PID>-<K>/ (patch.diff, demo.py, notes.txt, meta.json)."""
import json, os, shutil, subprocess, sys, time
pid, k = sys.argv[1], sys.argv[2]
do_base = '--baseline' in sys.argv
only = None
for a in sys.argv:
  if a.startswith('--only='):
    only = a.split('=', 1)[1]
base = '/tmp/mut'
outk = k
for a in sys.argv:
  if a.startswith('--base='):
    base = a.split('=', 1)[1]
  if a.startswith('--outk='):
    outk = a.split('=', 1)[1]
src = '%s/%s_out/%s' % (base, pid, k)
wt = '%s/%s' % (base, pid)
out = '/verif/seeded/%s-%s' % (pid, outk)
os.makedirs(out, exist_ok=True)
for f in ('patch.diff', 'demo.py', 'notes.txt'):
  if os.path.exists(os.path.join(src, f)):
    shutil.copy(os.path.join(src, f), os.path.join(out, f))
patch = os.path.join(out, 'patch.diff')
def sh(cmd, **kw):
  return subprocess.run(cmd, shell=True, capture_output=True, text=True, **kw)
meta = dict(property=pid, k=k, ran=[])
_old = {}
if os.path.exists(os.path.join(out, 'meta.json')):
  try:
    _old = json.load(open(os.path.join(out, 'meta.json')))
  except Exception:
    _old = {}
env = 'PYTHONPATH=%s' % wt
assert sh('git -C %s status --porcelain' % wt).stdout.strip() == '', 'worktree dirty'
r0 = sh('%s /venv/bin/python %s/demo.py' % (env, out), timeout=900)
meta['demo_without_change_rc'] = r0.returncode
a = sh('git -C %s apply %s' % (wt, patch))
assert a.returncode == 0, a.stderr
r1 = sh('%s /venv/bin/python %s/demo.py' % (env, out), timeout=900)
meta['demo_with_change_rc'] = r1.returncode
meta['demo_with_change_tail'] = (r1.stdout + r1.stderr)[-600:]
if do_base:
  b = sh('/venv/bin/python /tmp/mut/baseline.py %s' % wt, timeout=3600)
  meta['baseline_with_change'] = b.stdout.strip().splitlines()[:3]
sh('git -C %s checkout -- .' % wt)
meta['ran'].append('demo.py on scratch worktree with and without the change'
                   + ('; pinned baseline with the change' if do_base else ''))
# now the check against /repo with the change applied
assert sh('git -C /repo status --porcelain').stdout.strip() == '', '/repo dirty'
a = sh('git -C /repo apply %s' % patch)
assert a.returncode == 0, a.stderr
t = time.time()
try:
  cmd = '/venv/bin/python /verif/vf/run.py %s --tier quick --no-evidence' % pid
  if only:
    cmd += ' --only %s' % only
  c = sh(cmd, cwd='/verif', timeout=7200)
finally:
  sh('git -C /repo checkout -- .')
meta['check_cmd'] = cmd
meta['check_rc'] = c.returncode
meta['check_wall_s'] = round(time.time() - t, 1)
lines = c.stdout.splitlines()
meta['check_violation_lines'] = [l for l in lines if l.startswith('VIOLATION')][:5]
meta['check_counterexamples'] = [l[:300] for l in lines if l.startswith('counterexample')][:5]
meta['check_summary'] = [l for l in lines if l.startswith(pid + ' tier')]
meta['check_harness_errors'] = [l[:300] for l in lines if l.startswith('HARNESS-ERROR')][:5]
meta['detected'] = c.returncode == 1 and bool(meta['check_violation_lines'])
hist = list(_old.get('history', []))
if _old and not hist and 'detected' in _old:
  hist.append(dict(detected=_old['detected'], summary=_old.get('check_summary')))
hist.append(dict(detected=meta['detected'], summary=meta['check_summary']))
meta['history'] = hist
for key in ('baseline_with_change', 'baseline_with_change_confirmed'):
  if key not in meta and key in _old:
    meta[key] = _old[key]
json.dump(meta, open(os.path.join(out, 'meta.json'), 'w'), indent=1)
print(pid, k, 'demo', meta['demo_without_change_rc'], '->', meta['demo_with_change_rc'],
      'check rc', c.returncode, 'detected', meta['detected'], meta['check_summary'])
