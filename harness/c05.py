"""C05 -- lifted jit/remat/cond/switch/while_loop/map_variables act like plain code
(flax's own lifting protocol; the JAX primitive is replaced by a stub of its
documented contract so that values stay symbolic)."""
import functools

import jax
from flax.core import scope as S
from flax.core import lift as L
from flax.core import FrozenDict
from flax import errors

from harness.common import qualnames
from harness import c01 as C1
from harness import c09 as C9
from vf.ob import Ob
from vf.xh import I, B, Reject, pick


class _Lax:
  @staticmethod
  def cond(pred, t, f, *ops):
    # like lax.cond under tracing: BOTH branch functions are executed (traced),
    # the selected result is returned
    rt = t(*ops)
    rf = f(*ops)
    return rt if pred else rf

  @staticmethod
  def switch(index, branches, *ops):
    n = len(branches)
    i = 0 if index < 0 else (n - 1 if index >= n else index)   # lax clamps
    results = [b(*ops) for b in branches]                      # all are traced
    return results[i]

  @staticmethod
  def while_loop(cond_fn, body_fn, init):
    c = init
    while cond_fn(c):
      c = body_fn(c)
    return c

  def __getattr__(self, name):
    return getattr(jax.lax, name)


class _JaxProxy:
  lax = _Lax()

  @staticmethod
  def jit(f=None, **kw):
    return f if f is not None else (lambda g: g)

  @staticmethod
  def remat(f=None, **kw):
    return f if f is not None else (lambda g: g)

  checkpoint = remat

  def __getattr__(self, name):
    return getattr(jax, name)


class LiftEnv:
  def __enter__(self):
    self.saved = L.jax
    L.jax = _JaxProxy()
    return self

  def __exit__(self, *a):
    L.jax = self.saved
    return False


TRANSFORMS = ['checkpoint', 'jit', 'map_variables(identity)', 'cond', 'switch']
NT = len(TRANSFORMS)


def _direct(prog, variables, mutable, x):
  log = []
  out = S.apply(lambda sc, xx: C1.run_program(sc, xx, prog, log), mutable=mutable)(
      variables, x)
  return out, log


def _alt(prog):
  return list(reversed(prog))


def lifted_equals_plain(t, mi, li, sel, a, b, x, n, k0, c0, n0, h0, k1, c1, n1, h1):
  """T(fn)(scope, x) == fn on the lifted collections (output term, error log,
  returned mutable collections); collections that are not lifted stay untouched."""
  prog = C1._prog(n, k0, c0, n0, h0, k1, c1, n1, h1, 0, 0, 0, False)
  _, mk, mref = pick(C1.MUT, mi)
  _, lk, lref = pick(C1.MUT, li)
  if li == 0 or li == 7 or li == 10:
    raise Reject()                 # lifting nothing: covered by li forms that lift
  variables = C1.mk_vars(a, b, False, True)
  snap = C1.snapshot(variables)
  lift_filter = lk()
  sel = pick([0, 1, 2], sel)

  def chosen(prog_):
    return prog_

  logs = {'body': [], 'alt': []}

  def lifted_fn(sc, xx, log):
    # (lax.cond / lax.switch trace every branch: each branch keeps its own log)
    body = lambda s_, x_: C1.run_program(s_, x_, prog, logs['body'])
    alt = lambda s_, x_: C1.run_program(s_, x_, _alt(prog), logs['alt'])
    noop = lambda s_, x_: x_
    if t == 0:
      return L.checkpoint(body, variables=lift_filter, rngs=True)(sc, xx)
    if t == 1:
      return L.jit(lambda s_, key, x_: body(s_, x_), variables=lift_filter,
                   rngs=True)(sc, 0, xx)
    if t == 2:
      return L.map_variables(body, lift_filter, map_in_fn=lambda v: v,
                             map_out_fn=lambda v: v, mutable=True)(sc, xx)
    if t == 3:
      return L.cond(sel == 0, body, alt, sc, xx, variables=lift_filter, rngs=True)
    return L.switch(sel, [body, alt, noop], sc, xx, variables=lift_filter,
                    rngs=True)
  t = pick(list(range(NT)), t)
  if t < 3 and sel != 0:
    raise Reject()                 # the selector only matters for cond / switch
  if t == 2:
    # map_variables lifts every collection (variables=True); only the mapped ones
    # pass through map_in_fn / map_out_fn
    lref = lambda c: True
  log = []
  with LiftEnv():
    try:
      out = S.apply(lambda sc, xx: lifted_fn(sc, xx, log), mutable=mk())(
          variables, x)
    except ValueError as e:
      # pack refuses outputs in collections it did not lift: documented
      return 'unmapped output variables' in str(e)
  if C1.snapshot(variables) != snap:
    return False
  # reference: the plain program on the lifted collections only
  if t in (3, 4):
    which = prog if sel == 0 else (_alt(prog) if (sel == 1 or t == 3) else None)
    log = [] if which is None else (logs['body'] if sel == 0 else logs['alt'])
  else:
    which = prog
    log = logs['body']
  sub = {c: v for c, v in variables.items() if lref(c)}
  sub_mut = [c for c in C1.COLS if mref(c) and lref(c)]
  if which is None:
    (ref_out, ref_log) = (x, {}) if False else ((x, {}), [])
  else:
    ref_out, ref_log = _direct(which, sub, sub_mut, x)
  y_ref, mut_ref = ref_out
  if log != ref_log:
    return False
  if mi == 0:
    return out == y_ref
  y, mvars = out
  if y != y_ref:
    return False
  want = {}
  for c in set(variables) | set(mut_ref):
    if not mref(c):
      continue
    if c in mut_ref:
      want[c] = C1.plain(mut_ref[c])
    elif c in variables:
      want[c] = C1.plain(variables[c])
  return C1.plain(mvars) == want


def bound_child_sees_lifted_update(t, sel, a, x, via_value):
  """a child scope bound BEFORE a lifted call on its parent (what a setup()-defined
  sub-module is) is used plainly, updated inside the lifted call, and used plainly
  again: it sees the lifted update, exactly as in the un-transformed program"""
  t = pick(list(range(NT)), t)
  sel = pick([0, 1, 2], sel)
  if t < 3 and sel != 0:
    raise Reject()

  def fn(sc, xx, lifted):
    kid = sc.push('kid')
    n = kid.variable('stats', 'n', lambda: 0)
    n.value = n.value + 1                                   # plain use

    def body(s_, x_):
      k2 = s_.push('kid', reuse=True)
      n2 = k2.variable('stats', 'n', lambda: 0)
      n2.value = n2.value + x_                              # update under the lift
      return n2.value
    alt = lambda s_, x_: body(s_, x_ * 2)
    noop = lambda s_, x_: x_
    if not lifted:
      y = (body if sel == 0 else (alt if (sel == 1 or t == 3) else noop))(sc, xx) \
          if t in (3, 4) else body(sc, xx)
    elif t == 0:
      y = L.checkpoint(body, variables=True, rngs=True)(sc, xx)
    elif t == 1:
      y = L.jit(lambda s_, key, x_: body(s_, x_), variables=True, rngs=True)(
          sc, 0, xx)
    elif t == 2:
      y = L.map_variables(body, 'stats', map_in_fn=lambda v: v,
                          map_out_fn=lambda v: v, mutable=True)(sc, xx)
    elif t == 3:
      y = L.cond(sel == 0, body, alt, sc, xx, variables=True, rngs=True)
    else:
      y = L.switch(sel, [body, alt, noop], sc, xx, variables=True, rngs=True)
    # plain use again, through the scope / Variable object bound before the lift
    if via_value:
      n.value = n.value + 1
    else:
      kid.put_variable('stats', 'n', kid.get_variable('stats', 'n') + 1)
    return y, kid.get_variable('stats', 'n')
  variables = {'stats': {'kid': {'n': a}}}
  with LiftEnv():
    out_l = S.apply(lambda sc, xx: fn(sc, xx, True), mutable=['stats'])(variables, x)
  out_p = S.apply(lambda sc, xx: fn(sc, xx, False), mutable=['stats'])(variables, x)
  (yl, nl), ml = out_l
  (yp, np_), mp = out_p
  return yl == yp and nl == np_ and C1.plain(ml) == C1.plain(mp)


def lifted_while(mi, a, b, init, limit, split):
  """lift.while_loop == the Python loop: carried collection sees every iteration's
  update, broadcast collection is read-only, result is the final carry"""
  _, mk, mref = pick(C1.MUT, mi)
  if not mref('stats'):
    raise Reject()
  if not (0 <= limit - init <= 3):
    raise Reject()
  variables = {'params': {'w': a}, 'stats': {'k': b}}
  snap = C1.snapshot(variables)

  def cond_fn(sc, c):
    return c < limit

  def body_fn(sc, c):
    v = sc.variable('stats', 'k', lambda: 0)
    v.value = v.value + sc.get_variable('params', 'w') + c
    try:
      sc.put_variable('params', 'w', 0)
      return -100
    except errors.ModifyScopeVariableError:
      pass
    return c + 1

  def fn(sc):
    return L.while_loop(cond_fn, body_fn, sc, init, carry_variables='stats',
                        broadcast_variables='params')
  with LiftEnv():
    out, mvars = S.apply(fn, mutable=mk())(variables)
  if C1.snapshot(variables) != snap:
    return False
  k, c = b, init
  while c < limit:
    k = k + a + c
    c = c + 1
  if out != c:
    return False
  mv = C1.plain(mvars)
  if mv.get('stats') != {'k': k}:
    return False
  return ('params' not in mv) or mv['params'] == {'w': a}


def dedup_scopes(shared):
  """a scope passed twice in the lifted scope tree is one scope inside"""
  variables = {'stats': {'k': 1}}

  def fn(sc):
    tree = (sc, sc) if shared else (sc, sc.push('c'))

    def body(scopes, x_):
      s1, s2 = scopes
      s1.put_variable('stats', 'k', 5)
      return (s1 is s2), s2.get_variable('stats', 'k', -1)
    return L.checkpoint(body, variables=True, rngs=True)(tree, 0)
  with LiftEnv():
    (same, seen), mv = S.apply(fn, mutable=True)(variables)
  return same == bool(shared) and seen == (5 if shared else -1) and mv['stats'][
      'k'] == 5


def map_variables_init(x, frozen_mapped, mform=0):
  """identity map_variables(init=True) during initialisation: same tree and output
  as the plain code (a counter outside the mapped collection is bumped ONCE)"""
  def body(sc, xx):
    w = sc.variable('params', 'w', lambda: 3)
    c = sc.variable('stats', 'count', lambda: 0)
    if sc.is_mutable_collection('stats'):
      c.value = c.value + 1
    return xx * w.value + c.value

  def lifted(sc, xx):
    return L.map_variables(body, 'params', map_in_fn=lambda v: v,
                           map_out_fn=lambda v: v, init=True,
                           mutable=not frozen_mapped)(sc, xx)
  with LiftEnv():
    y1, v1 = S.init(lifted)({'params': C9._KEYS[0]}, x)
  y0, v0 = S.init(body)({'params': C9._KEYS[0]}, x)
  if not (y1 == y0 and C1.plain(v1) == C1.plain(v0)):
    return False
  # ... and afterwards, on the initialised variables, for every mutability: the
  # init=True wrapper behaves like the plain code (it re-initialises nothing)
  mut = pick([False, ['stats'], ['params'], ['params', 'stats'], True], mform)
  if frozen_mapped and mut is not False and mut != ['stats']:
    raise Reject()        # a mapped collection that may not be written is read-only
  with LiftEnv():
    out1 = S.apply(lifted, mutable=mut)(v0, x)
  out0 = S.apply(body, mutable=mut)(v0, x)
  if mut is False:
    return out1 == out0
  return out1[0] == out0[0] and C1.plain(out1[1]) == C1.plain(out0[1])


import flax.linen as nn
from harness.c02 import RngStub


class _Inner(nn.Module):
  @nn.compact
  def __call__(self, x):
    w = self.variable('params', 'w', lambda: 3)
    c = self.variable('stats', 'count', lambda: 0)
    if self.is_mutable_collection('stats'):
      c.value = c.value + 1
    seen_rng = 1 if self.has_rng('noise') else 0
    return x * w.value + c.value * 10 + seen_rng * 100


class _Outer(nn.Module):
  rf: int = 0
  vf: int = 0
  lifted: bool = True

  @nn.compact
  def __call__(self, x):
    if not self.lifted:
      return _Inner(name='inner')(x)
    rngs = [True, 'noise', False, ['noise', 'other']][self.rf]
    variables = [True, ['params', 'stats'], 'stats'][self.vf]
    M = nn.map_variables(_Inner, 'params', lambda v: v, lambda v: v, mutable=True,
                         rngs=rngs, variables=variables)
    return M(name='inner')(x)


def linen_map_variables_filters(rf, vf, w, c, x, mutable):
  """an identity nn.map_variables on a sub-module equals the plain sub-module for
  every rngs= / variables= lifting filter: lifted rng streams stay visible inside,
  streams that are not lifted do not, collections are lifted by `variables`"""
  rf, vf = pick([0, 1, 2, 3], rf), pick([0, 1, 2], vf)
  vs = {'params': {'inner': {'w': w}}, 'stats': {'inner': {'count': c}}}
  mut = ['stats'] if mutable else False
  with LiftEnv(), RngStub():
    got = _Outer(rf=rf, vf=vf).apply(vs, x, rngs={'noise': C9._KEYS[0]}, mutable=mut)
  ref = _Outer(lifted=False).apply(vs, x, rngs={'noise': C9._KEYS[0]}, mutable=mut)
  if mutable:
    (y, upd), (yr, updr) = got, ref
  else:
    y, yr, upd, updr = got, ref, {}, {}
  # the only permitted difference: an rng stream that was not lifted is not visible
  sees = rf in (0, 1, 3)
  want_y = yr if sees else yr - 100
  return y == want_y and C1.plain(upd) == C1.plain(updr)


def dedup_grandchild(depth):
  """a scope passed together with a descendant `depth` levels below it: inside the
  transform the descendant is re-created at the same relative path"""
  variables = {'stats': {'k': 1}}
  names = ['a', 'b', 'c'][:depth]

  def fn(sc):
    g = sc
    for nm in names:
      g = g.push(nm)

    def body(scopes, x_):
      s1, s2 = scopes
      s2.put_variable('stats', 'k', 5)
      return s2.path
    return L.checkpoint(body, variables=True, rngs=True)((sc, g), 0)
  with LiftEnv():
    path, mv = S.apply(fn, mutable=True)(variables)
  want = {'k': 1}
  cur = want
  for nm in names:
    cur[nm] = {}
    cur = cur[nm]
  cur['k'] = 5
  return tuple(path) == tuple(names) and C1.plain(mv) == {'stats': want}


from harness import c09 as C9
_K = C9._KEYS


def lifted_rng_counters(t, mi, uses, draws):
  """random draws inside a lifted function: under checkpoint / map_variables they are
  the plain code's draws (same keys as terms, counters advanced in the caller's
  scope, also when the lifted function is used several times and nothing is
  mutable); under cond they are reproducible and never repeat a key"""
  _, mk, mref = pick(C1.MUT, mi)

  def body(sc, x_):
    ks = []
    for _ in range(draws):
      ks.append(sc.make_rng('params'))
    return ks

  def run(lifted):
    got = []

    def fn(sc):
      for _ in range(uses):
        if not lifted:
          got.extend(body(sc, 0))
        elif t == 0:
          got.extend(L.checkpoint(body, variables=True, rngs=True)(sc, 0))
        elif t == 1:
          got.extend(L.map_variables(body, 'stats', map_in_fn=lambda v: v,
                                     map_out_fn=lambda v: v)(sc, 0))
        else:
          got.extend(L.cond(True, body, body, sc, 0, variables=True, rngs=True))
      got.extend(body(sc, 0))      # and a plain draw afterwards
    tf = C9._TermFold()
    saved = S._fold_in_static
    S._fold_in_static = tf
    try:
      with LiftEnv():
        S.apply(fn, mutable=mk())({'stats': {'k': 1}}, rngs={'params': _K[0]})
    finally:
      S._fold_in_static = saved
    return got
  a, b = run(True), run(False)
  if len(set(a)) != len(a):
    return False                       # a key is never handed out twice
  if t == 2:
    # lax.cond traces BOTH branches (the stub executes both, as tracing does) and
    # the inner scopes share the caller's live counters, so the second branch draws
    # after the first: the draws are a deterministic function of the program, not
    # those of the plain code (which runs one branch).  The property asks for
    # reproducibility here, identity only for remat / map_variables.
    return a == run(True) and len(a) == len(b)
  return a == b


EXPLANATION = (
    'C05: scope programs (C01 op set, <=2 ops) run through lift.checkpoint / jit / '
    'identity map_variables / cond / switch with symbolic lifting filter, outer '
    'mutable filter, predicate / branch index and leaf values, compared with the '
    'plain program on the lifted collections; lift.while_loop compared with the '
    'Python loop for trip counts 0..3.')
ASSUMPTIONS = (
    'jax.jit / jax.remat / lax.cond / lax.switch / lax.while_loop are replaced in '
    'flax.core.lift by stubs of their documented contract on Python values '
    '(jit, remat: identity decorators; cond/switch/while: Python control flow)',
    'nn.jit trace-cache / fingerprint staleness and "deterministic function of the '
    'call site under jit" exist only with a real trace cache: NOT covered',
    'Module-level linen.transforms class/decorator variants are not covered',
    'jax.core.get_opaque_trace_state compat shim installed by the harness process',
)


def obligations(tier):
  quick = tier == 'quick'
  F = qualnames(L._partial_pack, L.pack, L._dedup_scopes, L._dup_scopes,
                L.map_variables, L.cond, L.switch, L.while_loop, L.checkpoint,
                L.jit, S.group_collections, S.intersect_filters)
  kind = I(0, C1.NOPS - 1)
  col = I(0, 2)
  nm = I(0, 1)
  nmut = C1.NMUT - 1
  return [
      Ob('lifted_equals_plain', lifted_equals_plain,
         dict(t=I(0, NT - 1), mi=I(0, 6 if quick else nmut),
              li=I(1, 6 if quick else nmut), sel=I(0, 2), a=I(-3, 3),
              b=I(-3, 3), x=I(-3, 3), n=I(1, 1), k0=kind, c0=col,
              n0=nm, h0=B(),
              k1=I(0, 0),
              c1=I(0, 0), n1=I(0, 0),
              h1=I(0, 0)),
         split=('t', 'mi', 'li') if quick else ('t', 'mi', 'li', 'k0'),
         timeout=900, funcs=F,
         bounds='5 transforms x %d mutable forms x %d lifting-filter forms x '
                'programs of %s ops (7 kinds x 3 collections x 2 names%s), '
                'predicate / index 0..2' % (
                    7 if quick else nmut + 1, 6 if quick else nmut,
                    '1', ' x root/child')),
      Ob('lifted_while_loop', lifted_while,
         dict(mi=I(1, nmut), a=I(-3, 3), b=I(-3, 3), init=I(-2, 2), limit=I(-2, 5),
              split=B()), split=('mi',), timeout=600, funcs=F,
         bounds='trip counts 0..3, carried stats / broadcast params'),
      Ob('lifted_scope_dedup', dedup_scopes, dict(shared=B()), timeout=120,
         funcs=F),
      Ob('map_variables_init', map_variables_init,
         dict(x=I(-3, 3), frozen_mapped=B(), mform=I(0, 4)), timeout=300, funcs=F),
      Ob('lifted_scope_descendant_path', dedup_grandchild, dict(depth=I(1, 3)),
         timeout=120, funcs=F),
      Ob('linen_map_variables_filters', linen_map_variables_filters,
         dict(rf=I(0, 3), vf=I(0, 2), w=I(-3, 3), c=I(-3, 3), x=I(-3, 3), mutable=B()),
         split=('rf',), timeout=300, funcs=F,
         bounds='nn.map_variables(Module) with rngs in {True, name, False, list} and '
                'variables in {True, list}'),
      Ob('bound_child_sees_lifted_update', bound_child_sees_lifted_update,
         dict(t=I(0, NT - 1), sel=I(0, 2), a=I(-3, 3), x=I(-3, 3), via_value=B()),
         split=('t',), timeout=300, funcs=F,
         bounds='5 transforms, a child scope bound before the lifted call, used '
                'plainly before and after it, updated inside it'),
      Ob('lifted_rng_counters', lifted_rng_counters,
         dict(t=I(0, 2), mi=I(0, nmut), uses=I(1, 3), draws=I(0, 2)),
         split=('t',), timeout=600, funcs=F,
         bounds='checkpoint / map_variables / cond used 1..3 times in one apply, '
                '0..2 draws each, all mutable forms; keys compared as terms'),
  ]
