"""C08 (slice) -- NNX vmap/scan/grad: flax's own routing only (aliasing rejection,
StateAxes prefix resolution, wrt / DiffState splitting).  Equality with the
per-index loop / scan loop / jax.grad numerics is JAX's and is not claimed."""
import jax
import numpy as np
from flax import nnx
from flax.nnx import extract, filterlib as FL
from flax.nnx.transforms import iteration as IT, autodiff as AD

from harness.common import qualnames
from harness import graphs as GR
from vf.ob import Ob
from vf.xh import I, B, Reject, pick

AXES = [None, 0, 1, nnx.Carry]
# (constructor, reference predicate(path, variable))
FILT = [
    (lambda: nnx.Param, lambda p, v: isinstance(v, nnx.Param)),
    (lambda: nnx.BatchStat, lambda p, v: isinstance(v, nnx.BatchStat)),
    (lambda: 't1', lambda p, v: getattr(v, 'tag', None) == 't1'),
    (lambda: FL.PathContains('child'), lambda p, v: 'child' in p),
    (lambda: ..., lambda p, v: True),
    (lambda: FL.Not(nnx.Param), lambda p, v: not isinstance(v, nnx.Param)),
]


def state_axes_prefix(nf, f0, f1, f2, a0, a1, a2, s0, d0, h0):
  """StateAxes.map_prefix returns the axis of the FIRST matching filter for every
  Variable of the graph; no match raises"""
  edge = GR.pick_edges(1, [(s0, d0, h0)], 3, 8)[0]
  if edge[0] == 2 and edge[1] == 2:
    raise Reject()
  o = GR.build([edge], 1, 2, 3)
  fs = [pick(FILT, f) for f in (f0, f1, f2)[:nf]]
  axs = [pick(AXES, a) for a in (a0, a1, a2)[:nf]]
  for f, a in list(zip((f0, f1, f2), (a0, a1, a2)))[nf:]:
    if f != 0 or a != 0:
      raise Reject()
  sa = nnx.StateAxes([(f[0](), a) for f, a in zip(fs, axs)])
  _, _, var_first = GR.canon(o['M0'])
  for path, v in var_first.items():
    if not isinstance(v, nnx.Variable):
      continue
    want = None
    found = False
    for (mk, ref), a in zip(fs, axs):
      if ref(path, v):
        want, found = a, True
        break
    try:
      got = sa.map_prefix(path, v)
    except ValueError:
      if found:
        return False
      continue
    if not found or got is not want and got != want:
      return False
  return True


def aliasing_rejected(second, a_first, a_second, f_first, s0, d0, h0):
  """a Variable reachable from two arguments under two different axis
  specifications is rejected; identical specifications are accepted"""
  edge = GR.pick_edges(1, [(s0, d0, h0)], 3, 8)[0]
  if edge[0] == 2 and edge[1] == 2:
    raise Reject()
  o = GR.build([edge], 1, 2, 3)
  m0 = o['M0']
  other = pick([o['M1'], o['M2']], second)
  ax1, ax2 = pick(AXES, a_first), pick(AXES, a_second)
  mk, ref = pick(FILT, f_first)
  # first argument: StateAxes{filter: ax1, ...: ax2}; second argument: plain ax2
  p1 = nnx.StateAxes([(mk(), ax1), (..., ax2)])
  prefixes = (p1, ax2)
  args = (m0, other)
  # reference: collect the prefix every Variable gets through every argument
  seen = {}
  for argi, (node, pref) in enumerate(zip(args, prefixes)):
    _, _, var_first = GR.canon(node)
    c, ident, _ = GR.canon(node)
    # every path, not only first visits
    for path, x in _all_variable_paths(node):
      if argi == 0:
        pv = ax1 if ref(path, x) else ax2
      else:
        pv = ax2
      seen.setdefault(id(x), set()).add(_norm(pv))
  inconsistent = any(len(v) > 1 for v in seen.values())
  # through the entry point the transforms use (prefix broadcasting included)
  from flax.nnx import graph as G
  try:
    with G.update_context('c08'):
      extract.to_tree(args, prefix=prefixes, split_fn=IT._vmap_split_fn,
                      ctxtag='c08')
  except ValueError as e:
    return inconsistent and 'Inconsistent aliasing' in str(e)
  return not inconsistent


def _norm(a):
  return 'Carry' if a is nnx.Carry else a


def _all_variable_paths(root):
  out = []
  seen_mods = set()

  def go(x, path, stack):
    if isinstance(x, nnx.Variable):
      out.append((path, x))
      return
    if isinstance(x, nnx.Module):
      if id(x) in seen_mods:
        return
      seen_mods.add(id(x))
    elif isinstance(x, (list, tuple, dict)):
      if id(x) in stack:
        raise Reject()
      stack = stack | {id(x)}
    else:
      return
    for k, v in GR.children(x):
      go(v, path + (k,), stack)
  go(root, (), frozenset())
  return out


class _GradStub:
  """jax.grad / value_and_grad stub: calls the function once and returns its first
  differentiated argument unchanged as the 'gradient' (structure only)"""

  @staticmethod
  def _mk(return_value):
    def transform(fn, argnums=0, has_aux=False, holomorphic=False, allow_int=False):
      def run(*args):
        loss, aux = fn(*args)
        an = argnums if isinstance(argnums, int) else argnums[0]
        g = args[an] if isinstance(argnums, int) else tuple(args[a] for a in argnums)
        if return_value:
          return (loss, aux), g
        return g, aux
      return run
    return transform


class GradEnv:
  def __enter__(self):
    self.saved = AD.jax

    class P:
      grad = staticmethod(_GradStub._mk(False))
      value_and_grad = staticmethod(_GradStub._mk(True))

      def __getattr__(self, name):
        return getattr(jax, name)
    AD.jax = P()
    return self

  def __exit__(self, *a):
    AD.jax = self.saved
    return False


def grad_two_arguments(fi, order, x):
  """argnums as a sequence mixing DiffState and plain ints: every argument is
  differentiated by ITS OWN filter (plain int = Param), in either order"""
  o1 = GR.build([], 1, 2, 3)
  o2 = GR.build([], 4, 5, 6)
  m1, m2 = o1['M0'], o2['M0']
  mk, ref = pick(FILT, fi)

  def loss_fn(a, b, xx):
    return 0
  argn = (nnx.DiffState(0, mk()), 1) if order == 0 else (1, nnx.DiffState(0, mk()))
  with GradEnv():
    g = nnx.grad(loss_fn, argnums=argn)(m1, m2, x)
  g_first, g_second = (g[0], g[1]) if order == 0 else (g[1], g[0])
  _, _, v1 = GR.canon(m1)
  _, _, v2 = GR.canon(m2)
  want1 = {p for p, v in v1.items() if ref(p, v)}
  want2 = {p for p, v in v2.items() if isinstance(v, nnx.Param)}
  return ({p for p, _ in nnx.to_flat_state(g_first)} == want1
          and {p for p, _ in nnx.to_flat_state(g_second)} == want2)


def grad_wrt_routing(fi, use_diffstate, s0, d0, h0, x):
  """nnx.grad differentiates exactly the Variables selected by wrt / DiffState
  (default Param); unselected state is absent from the gradient; the forward
  pass's side effects reach the caller's objects exactly once"""
  edge = GR.pick_edges(1, [(s0, d0, h0)], 3, 8)[0]
  if edge[0] == 2 and edge[1] == 2:
    raise Reject()
  o = GR.build([edge], 1, 2, 3)
  m = o['M0']
  mk, ref = pick(FILT, fi)
  calls = []

  def loss_fn(model, xx):
    calls.append(1)
    model.child.b.value = model.child.b.value + xx     # side effect
    return 0
  with GradEnv():
    if use_diffstate:
      g = nnx.grad(loss_fn, argnums=nnx.DiffState(0, mk()))(m, x)
    else:
      if fi != 0:
        raise Reject()
      g = nnx.grad(loss_fn)(m, x)
  if len(calls) != 1 or m.child.b.value != 3 + x:
    return False
  _, _, var_first = GR.canon(m)
  # (array attributes are state leaves too and are routed by the same filter)
  want = {p for p, v in var_first.items() if ref(p, v)}
  got = {p for p, _ in nnx.to_flat_state(g)}
  return got == want


EXPLANATION = (
    'C08 slice: StateAxes.map_prefix (first matching filter) and '
    'extract.check_consistent_aliasing on the C03 graphs (+1 symbolic aliasing '
    'edge) for every combination of axis specifications {None,0,1,Carry}; '
    'nnx.grad wrt / DiffState routing with jax.grad replaced by a structure-'
    'returning stub.')
ASSUMPTIONS = (
    'equality of nnx.vmap / scan / grad results with the per-index loop, the scan '
    'loop and jax.grad numerics is implemented by JAX (vmap, lax.scan, AD) and is '
    'NOT covered; only flax-side routing is decided',
    'jax.grad / value_and_grad replaced in flax.nnx.transforms.autodiff by a stub '
    'that calls the function once and returns the differentiated argument',
    'jax.core.get_opaque_trace_state compat shim installed by the harness process',
)


def obligations(tier):
  F = qualnames(IT.StateAxes.map_prefix, extract.check_consistent_aliasing,
                AD._grad_general, AD.GradFn.__call__, AD.grad)
  quick = tier == 'quick'
  nf = len(FILT) - 1
  e = dict(s0=I(0, 2), d0=I(0, 7), h0=B())
  return [
      Ob('state_axes_first_match', state_axes_prefix,
         dict(nf=I(1, 2 if quick else 3), f0=I(0, nf), f1=I(0, nf), f2=I(0, nf),
              a0=I(0, 3), a1=I(0, 3), a2=I(0, 3), s0=I(0, 0), d0=I(0, 7),
              h0=I(0, 0)), split=('nf', 'f0', 'a0') if quick else ('nf', 'f0', 'a0',
                                                                  'f1'),
         timeout=600, funcs=F,
         bounds='<=%d (filter, axis) pairs over 6 filters x 4 axis values, base '
                'graph + 1 extra edge from the root' % (2 if quick else 3)),
      Ob('inconsistent_aliasing_rejected', aliasing_rejected,
         dict(second=I(0, 1), a_first=I(0, 3), a_second=I(0, 3), f_first=I(0, nf),
              **e), split=('second', 'f_first'), timeout=600, funcs=F,
         bounds='two arguments (second = child of the first, or separate), base '
                'graph + 1 aliasing edge, all axis pairs'),
      Ob('grad_two_arguments', grad_two_arguments,
         dict(fi=I(0, nf), order=I(0, 1), x=I(-2, 2)), timeout=600, funcs=F),
      Ob('grad_wrt_routing', grad_wrt_routing,
         dict(fi=I(0, nf), use_diffstate=B(), **e, x=I(-2, 2)), split=('fi',),
         timeout=600, funcs=F),
  ]
