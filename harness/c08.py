"""C08 (slice) -- NNX vmap/scan/grad: flax's own routing only (aliasing rejection,
StateAxes prefix resolution, wrt / DiffState splitting).  Equality with the
per-index loop / scan loop / jax.grad numerics is JAX's and is not claimed."""
import jax
import numpy as np
from flax import nnx
from flax.nnx import extract, filterlib as FL
from flax.nnx.transforms import iteration as IT, autodiff as AD

from harness.common import qualnames
from harness import graphs as GR
from vf.ob import Ob
from vf.xh import with_real_dicts, I, B, Reject, pick

AXES = [None, 0, 1, nnx.Carry]
# (constructor, reference predicate(path, variable))
FILT = [
    (lambda: nnx.Param, lambda p, v: isinstance(v, nnx.Param)),
    (lambda: nnx.BatchStat, lambda p, v: isinstance(v, nnx.BatchStat)),
    (lambda: 't1', lambda p, v: getattr(v, 'tag', None) == 't1'),
    (lambda: FL.PathContains('child'), lambda p, v: 'child' in p),
    (lambda: ..., lambda p, v: True),
    (lambda: FL.Not(nnx.Param), lambda p, v: not isinstance(v, nnx.Param)),
]


def state_axes_prefix(nf, f0, f1, f2, a0, a1, a2, s0, d0, h0):
  """StateAxes.map_prefix returns the axis of the FIRST matching filter for every
  Variable of the graph; no match raises"""
  edge = GR.pick_edges(1, [(s0, d0, h0)], 3, 8)[0]
  if edge[0] == 2 and edge[1] == 2:
    raise Reject()
  o = GR.build([edge], 1, 2, 3)
  fs = [pick(FILT, f) for f in (f0, f1, f2)[:nf]]
  axs = [pick(AXES, a) for a in (a0, a1, a2)[:nf]]
  for f, a in list(zip((f0, f1, f2), (a0, a1, a2)))[nf:]:
    if f != 0 or a != 0:
      raise Reject()
  sa = nnx.StateAxes([(f[0](), a) for f, a in zip(fs, axs)])
  _, _, var_first = GR.canon(o['M0'])
  for path, v in var_first.items():
    if not isinstance(v, nnx.Variable):
      continue
    want = None
    found = False
    for (mk, ref), a in zip(fs, axs):
      if ref(path, v):
        want, found = a, True
        break
    try:
      got = sa.map_prefix(path, v)
    except ValueError:
      if found:
        return False
      continue
    if not found or got is not want and got != want:
      return False
  return True


def aliasing_rejected(second, a_first, a_second, f_first, s0, d0, h0):
  """a Variable reachable from two arguments under two different axis
  specifications is rejected; identical specifications are accepted"""
  edge = GR.pick_edges(1, [(s0, d0, h0)], 3, 8)[0]
  if edge[0] == 2 and edge[1] == 2:
    raise Reject()
  o = GR.build([edge], 1, 2, 3)
  m0 = o['M0']
  other = pick([o['M1'], o['M2']], second)
  ax1, ax2 = pick(AXES, a_first), pick(AXES, a_second)
  mk, ref = pick(FILT, f_first)
  # first argument: StateAxes{filter: ax1, ...: ax2}; second argument: plain ax2
  p1 = nnx.StateAxes([(mk(), ax1), (..., ax2)])
  prefixes = (p1, ax2)
  args = (m0, other)
  # reference: collect the prefix every Variable gets through every argument
  seen = {}
  for argi, (node, pref) in enumerate(zip(args, prefixes)):
    _, _, var_first = GR.canon(node)
    c, ident, _ = GR.canon(node)
    # every path, not only first visits
    for path, x in _all_variable_paths(node):
      if argi == 0:
        pv = ax1 if ref(path, x) else ax2
      else:
        pv = ax2
      seen.setdefault(id(x), set()).add(_norm(pv))
  inconsistent = any(len(v) > 1 for v in seen.values())
  # through the entry point the transforms use (prefix broadcasting included)
  from flax.nnx import graph as G
  try:
    with G.update_context('c08'):
      extract.to_tree(args, prefix=prefixes, split_fn=IT._vmap_split_fn,
                      ctxtag='c08')
  except ValueError as e:
    return inconsistent and 'Inconsistent aliasing' in str(e)
  return not inconsistent


# ------------------------------------------------------------------ vmap == per index
from harness import arr as AR
from harness.arr import Arr


class _VLax:
  scan = staticmethod(AR.ref_lax_scan)

  def __getattr__(self, name):
    return getattr(jax.lax, name)


class _VJax:
  vmap = staticmethod(AR.ref_vmap)
  lax = _VLax()
  Array = Arr                       # `isinstance(x, (jax.Array, np.ndarray))` checks

  def __getattr__(self, name):
    return getattr(jax, name)


class _VJnp:
  moveaxis = staticmethod(AR.moveaxis)

  def __getattr__(self, name):
    import jax.numpy as jnp
    return getattr(jnp, name)


class VmapEnv:
  def __enter__(self):
    self.saved = (IT.jax, IT.jnp)
    IT.jax, IT.jnp = _VJax(), _VJnp()
    return self

  def __exit__(self, *a):
    IT.jax, IT.jnp = self.saved
    return False


class VM(nnx.Module):
  def __init__(self, w, c, k):
    self.w = nnx.Param(w)
    self.c = nnx.BatchStat(c)
    self.sub = GR.Mod('sub')
    self.sub.k = nnx.Param(k)        # a second Param, deeper in the graph


VAX = [0, 1, None]


@with_real_dicts
def vmap_like_per_index(pa, sa, xa, oa, use_state_axes, x0, x1, x2, x3, x4, x5, w0, w1,
                        c0, k0, ta=0, barevar=False):
  """nnx.vmap == calling the function once per index on the per-index slice of every
  state group that has an axis, None groups shared; per-index updates end up stacked
  in the caller's own objects; outputs stacked along out_axes"""
  n = 3
  p_axis, s_axis = pick(VAX, pa), pick([0, 1], sa)
  x_axis = pick(VAX, xa)
  if not use_state_axes:
    # one int for the whole module
    if p_axis is None or p_axis != s_axis:
      raise Reject()
  rows = [Arr([x0, x1], (2,)), Arr([x2, x3], (2,)), Arr([x4, x5], (2,))]
  x = rows[0] if x_axis is None else Arr.stack(rows, x_axis)
  xi = (lambda i: rows[0]) if x_axis is None else (lambda i: rows[i])
  ws = [Arr([w0 + i, w1 - i], (2,)) for i in range(n)]
  cs = [Arr([c0 + 2 * i], (1,)) for i in range(n)]
  ks = [Arr([k0 - i], (1,)) for i in range(n)]
  stack = lambda items, ax: items[0] if ax is None else Arr.stack(items, ax)
  m = VM(stack(ws, p_axis), Arr.stack(cs, s_axis), stack(ks, p_axis))
  # a third group whose per-index value has rank 2 (stacked: rank 3) on its own axis
  t_axis = pick([0, 1, 2, -1], ta) if use_state_axes else p_axis
  ts = [Arr([k0 + i, c0 - i], (2, 1)) for i in range(n)]
  m.t = GR.Stat(Arr.stack(ts, t_axis))
  bare = nnx.Variable(Arr.stack([Arr([w1 + i], (1,)) for i in range(n)], 0))
  seen = []

  def f(*a):
    if barevar:
      v_, m_, x_ = a
      v_.value = v_.value + 1          # a bare Variable as the first graph node
    else:
      m_, x_ = a
    seen.append((m_.w.value.shape, m_.c.value.shape, x_.shape))
    xs = x_.sum()
    m_.c.value = m_.c.value + xs
    m_.t.value = m_.t.value + xs
    return Arr([m_.w.value.at((0,)) * xs + m_.sub.k.value.at((0,)),
                xs + m_.c.value.at((0,)) + m_.t.value.at((1, 0))], (2,))
  axes = nnx.StateAxes({nnx.Param: p_axis, nnx.BatchStat: s_axis, GR.Stat: t_axis}) \
      if use_state_axes else p_axis
  ids = (id(m), id(m.w), id(m.c), id(m.sub))
  with VmapEnv():
    if barevar:
      y = nnx.vmap(f, in_axes=(0, axes, x_axis), out_axes=oa)(bare, m, x)
    else:
      y = nnx.vmap(f, in_axes=(axes, x_axis), out_axes=oa,
                   axis_size=None)(m, x)
  wi = (lambda i: ws[0]) if p_axis is None else (lambda i: ws[i])
  ki = (lambda i: ks[0]) if p_axis is None else (lambda i: ks[i])
  new_c = [cs[i] + xi(i).sum() for i in range(n)]
  new_t = [ts[i] + xi(i).sum() for i in range(n)]
  want_y = Arr.stack([Arr([wi(i).at((0,)) * xi(i).sum() + ki(i).at((0,)),
                           xi(i).sum() + new_c[i].at((0,)) + new_t[i].at((1, 0))],
                          (2,)) for i in range(n)], oa)
  if not want_y.same(y):
    return False
  if any(s != ((2,), (1,), (2,)) for s in seen) or len(seen) != n:
    return False
  # the caller's own objects carry the stacked per-index updates; the rest is intact
  if ids != (id(m), id(m.w), id(m.c), id(m.sub)):
    return False
  if barevar and not Arr.stack([Arr([w1 + i + 1], (1,)) for i in range(n)], 0).same(
      bare.value):
    return False
  if not Arr.stack(new_t, t_axis).same(m.t.value):
    return False
  return (Arr.stack(new_c, s_axis).same(m.c.value) and stack(ws, p_axis).same(
      m.w.value) and stack(ks, p_axis).same(m.sub.k.value))


@with_real_dicts
def scan_like_loop(pa, xa, oa, reverse, carry_stat, x0, x1, x2, w0, w1, c0, k0, s0,
                   varcarry=False, ta=0):
  """nnx.scan == the Python loop: Carry threaded, the Param group sliced per step
  along its axis, the BatchStat group carried (each step sees the previous update)
  or sliced, outputs stacked in index order for either direction; the caller's own
  objects end in the loop's final state"""
  n = 3
  p_axis, x_axis = pick([0, 1], pa), pick([0, 1], xa)
  xv = [x0, x1, x2]
  x = Arr.stack([Arr([v], (1,)) for v in xv], x_axis)
  ws = [Arr([w0 + i, w1 - i], (2,)) for i in range(n)]
  ks = [Arr([k0 - i], (1,)) for i in range(n)]
  cs = [Arr([c0 + 2 * i], (1,)) for i in range(n)]
  m = VM(Arr.stack(ws, p_axis), Arr([c0], (1,)) if carry_stat else Arr.stack(cs, 0),
         Arr.stack(ks, p_axis))
  t_axis = pick([0, 1, 2, -1], ta)
  ts = [Arr([k0 + i, c0 - i], (2, 1)) for i in range(n)]
  m.t = GR.Stat(Arr.stack(ts, t_axis))

  def f(carry, m_, x_):
    xs = x_.at((0,))
    m_.c.value = m_.c.value * 2 + xs               # order sensitive when carried
    m_.t.value = m_.t.value + xs
    old = carry.value if varcarry else carry
    new = old * 3 + xs + m_.w.value.at((0,))
    if varcarry:
      carry.value = new          # the carry is a bare Variable, updated in place
    return (carry if varcarry else new), Arr(
        [xs + m_.c.value.at((0,)) + m_.sub.k.value.at((0,)), new.at((0,))], (2,))
  axes = nnx.StateAxes({nnx.Param: p_axis,
                        nnx.BatchStat: nnx.Carry if carry_stat else 0,
                        GR.Stat: t_axis})
  ids = (id(m), id(m.w), id(m.c), id(m.sub))
  carry0 = nnx.Variable(Arr([s0], (1,))) if varcarry else Arr([s0], (1,))
  with VmapEnv():
    cf, ys = nnx.scan(f, in_axes=(nnx.Carry, axes, x_axis),
                      out_axes=(nnx.Carry, oa), reverse=bool(reverse))(
                          carry0, m, x)
  if varcarry:
    # like the Python loop: the caller's own Variable holds the final carry and is
    # what comes back
    if cf is not carry0:
      return False
    cf = carry0.value
  carry, c, rys = s0, c0, [None] * n
  newc = list(cs)
  for i in (range(n - 1, -1, -1) if reverse else range(n)):
    if carry_stat:
      c = c * 2 + xv[i]
      cv = c
    else:
      cv = cs[i].at((0,)) * 2 + xv[i]
      newc[i] = Arr([cv], (1,))
    carry = carry * 3 + xv[i] + ws[i].at((0,))
    rys[i] = Arr([xv[i] + cv + ks[i].at((0,)), carry], (2,))
  if not Arr([carry], (1,)).same(cf) or not Arr.stack(rys, oa).same(ys):
    return False
  if ids != (id(m), id(m.w), id(m.c), id(m.sub)):
    return False
  want_c = Arr([c], (1,)) if carry_stat else Arr.stack(newc, 0)
  if not Arr.stack([ts[i] + xv[i] for i in range(n)], t_axis).same(m.t.value):
    return False
  return want_c.same(m.c.value) and Arr.stack(ws, p_axis).same(m.w.value)


def _norm(a):
  return 'Carry' if a is nnx.Carry else a


def _all_variable_paths(root):
  out = []
  seen_mods = set()

  def go(x, path, stack):
    if isinstance(x, nnx.Variable):
      out.append((path, x))
      return
    if isinstance(x, nnx.Module):
      if id(x) in seen_mods:
        return
      seen_mods.add(id(x))
    elif isinstance(x, (list, tuple, dict)):
      if id(x) in stack:
        raise Reject()
      stack = stack | {id(x)}
    else:
      return
    for k, v in GR.children(x):
      go(v, path + (k,), stack)
  go(root, (), frozenset())
  return out


class _GradStub:
  """jax.grad / value_and_grad stub: calls the function once and returns its first
  differentiated argument unchanged as the 'gradient' (structure only)"""

  @staticmethod
  def _mk(return_value):
    def transform(fn, argnums=0, has_aux=False, holomorphic=False, allow_int=False):
      def run(*args):
        loss, aux = fn(*args)
        an = argnums if isinstance(argnums, int) else argnums[0]
        g = args[an] if isinstance(argnums, int) else tuple(args[a] for a in argnums)
        if return_value:
          return (loss, aux), g
        return g, aux
      return run
    return transform


class GradEnv:
  def __enter__(self):
    self.saved = AD.jax

    class P:
      grad = staticmethod(_GradStub._mk(False))
      value_and_grad = staticmethod(_GradStub._mk(True))

      def __getattr__(self, name):
        return getattr(jax, name)
    AD.jax = P()
    return self

  def __exit__(self, *a):
    AD.jax = self.saved
    return False


def grad_two_arguments(fi, order, x):
  """argnums as a sequence mixing DiffState and plain ints: every argument is
  differentiated by ITS OWN filter (plain int = Param), in either order"""
  o1 = GR.build([], 1, 2, 3)
  o2 = GR.build([], 4, 5, 6)
  m1, m2 = o1['M0'], o2['M0']
  mk, ref = pick(FILT, fi)

  def loss_fn(a, b, xx):
    return 0
  argn = (nnx.DiffState(0, mk()), 1) if order == 0 else (1, nnx.DiffState(0, mk()))
  with GradEnv():
    g = nnx.grad(loss_fn, argnums=argn)(m1, m2, x)
  g_first, g_second = (g[0], g[1]) if order == 0 else (g[1], g[0])
  _, _, v1 = GR.canon(m1)
  _, _, v2 = GR.canon(m2)
  want1 = {p for p, v in v1.items() if ref(p, v)}
  want2 = {p for p, v in v2.items() if isinstance(v, nnx.Param)}
  return ({p for p, _ in nnx.to_flat_state(g_first)} == want1
          and {p for p, _ in nnx.to_flat_state(g_second)} == want2)


def grad_wrt_routing(fi, use_diffstate, s0, d0, h0, x):
  """nnx.grad differentiates exactly the Variables selected by wrt / DiffState
  (default Param); unselected state is absent from the gradient; the forward
  pass's side effects reach the caller's objects exactly once"""
  edge = GR.pick_edges(1, [(s0, d0, h0)], 3, 8)[0]
  if edge[0] == 2 and edge[1] == 2:
    raise Reject()
  o = GR.build([edge], 1, 2, 3)
  m = o['M0']
  mk, ref = pick(FILT, fi)
  calls = []

  def loss_fn(model, xx):
    calls.append(1)
    model.child.b.value = model.child.b.value + xx     # side effect
    return 0
  with GradEnv():
    if use_diffstate:
      g = nnx.grad(loss_fn, argnums=nnx.DiffState(0, mk()))(m, x)
    else:
      if fi != 0:
        raise Reject()
      g = nnx.grad(loss_fn)(m, x)
  if len(calls) != 1 or m.child.b.value != 3 + x:
    return False
  _, _, var_first = GR.canon(m)
  # (array attributes are state leaves too and are routed by the same filter)
  want = {p for p, v in var_first.items() if ref(p, v)}
  got = {p for p, _ in nnx.to_flat_state(g)}
  return got == want


# ------------------------------------------------------------------ grad values
from harness import refad as RAD


def _ref_value_and_grad(return_value):
  def transform(fn, argnums=0, has_aux=False, holomorphic=False, allow_int=False,
                reduce_axes=()):
    def run(*args):
      idx = (argnums,) if isinstance(argnums, int) else tuple(argnums)

      def fsel(*sel):
        full = list(args)
        for i, a in zip(idx, sel):
          full[i] = a
        return fn(*full)
      out = RAD.ref_vjp(fsel, *[args[i] for i in idx], has_aux=has_aux)
      y, bwd = out[0], out[1]
      g = bwd(RAD.ones_like(y))
      g = g[0] if isinstance(argnums, int) else tuple(g)
      if return_value:
        return ((y, out[2]) if has_aux else y), g
      return (g, out[2]) if has_aux else g
    return run
  return transform


class RefGradEnv:
  def __enter__(self):
    self.saved = AD.jax

    class P:
      grad = staticmethod(_ref_value_and_grad(False))
      value_and_grad = staticmethod(_ref_value_and_grad(True))

      def __getattr__(self, name):
        return getattr(jax, name)
    AD.jax = P()
    return self

  def __exit__(self, *a):
    AD.jax = self.saved
    return False


@with_real_dicts
def grad_values(sel, api, w0, w1, c0, k0, x0, x1):
  """nnx.grad / value_and_grad == the hand-derived gradient of
  loss = (w . x) * k + c0 * x0 wrt exactly the selected Variables (sel 0: default =
  Param, 1: DiffState(BatchStat), 2: DiffState(Any(Param, BatchStat)), 3:
  DiffState(PathContains('sub'))); forward side effects applied once"""
  m = VM(Arr([w0, w1], (2,)), Arr([c0], (1,)), Arr([k0], (1,)))
  m.n = Stat2(Arr([0], (1,)))
  x = Arr([x0, x1], (2,))
  calls = []

  def loss_fn(mm, xx):
    calls.append(1)
    mm.n.value = mm.n.value + 1                     # side effect
    return (mm.w.value * xx).sum() * mm.sub.k.value.at((0,)) + mm.c.value.at(
        (0,)) * xx.at((0,))
  argn = [0, nnx.DiffState(0, nnx.BatchStat),
          nnx.DiffState(0, nnx.Any(nnx.Param, nnx.BatchStat)),
          nnx.DiffState(0, nnx.PathContains('sub'))][sel]
  with RefGradEnv():
    if api == 0:
      g = nnx.grad(loss_fn, argnums=argn)(m, x)
    else:
      val, g = nnx.value_and_grad(loss_fn, argnums=argn)(m, x)
      if val != (w0 * x0 + w1 * x1) * k0 + c0 * x0:
        return False
  want = {}
  if sel in (0, 2):
    want[('w',)] = Arr([x0 * k0, x1 * k0], (2,))
  if sel in (0, 2, 3):
    want[('sub', 'k')] = Arr([w0 * x0 + w1 * x1], (1,))
  if sel in (1, 2):
    want[('c',)] = Arr([x0], (1,))
  got = {p: v.value for p, v in nnx.to_flat_state(g)}
  if set(got) != set(want):
    return False
  for p in want:
    if not want[p].same(got[p]):
      return False
  # the forward pass ran for its side effect exactly once as far as the caller sees
  return Arr([1], (1,)).same(m.n.value) and Arr([w0, w1], (2,)).same(m.w.value)


class Stat2(nnx.Variable):
  pass


EXPLANATION = (
    'C08: StateAxes.map_prefix (first matching filter) and '
    'extract.check_consistent_aliasing on the C03 graphs (+1 symbolic aliasing '
    'edge) for every combination of axis specifications {None,0,1,Carry}; nnx.grad '
    'wrt / DiffState routing; nnx.vmap == per-index calls, nnx.scan == Python loop, '
    'nnx.grad == hand-derived gradient on symbolic int values.')
ASSUMPTIONS = (
    'jax.vmap / jax.lax.scan / jnp.moveaxis are replaced in '
    'flax.nnx.transforms.iteration by reference implementations on an int-array '
    'stand-in (slice along in-axes, call once per index, stack along out-axes; the '
    'documented scan loop); jax.grad / value_and_grad in '
    'flax.nnx.transforms.autodiff by a structure-returning stub (routing '
    'obligations) or a one-pass tape AD on symbolic ints (value obligation)',
    "JAX's own float numerics, split_rngs, transform_metadata, pmap: NOT covered",
    'jax.core.get_opaque_trace_state compat shim installed by the harness process',
)


def obligations(tier):
  F = qualnames(IT.StateAxes.map_prefix, extract.check_consistent_aliasing,
                AD._grad_general, AD.GradFn.__call__, AD.grad)
  quick = tier == 'quick'
  nf = len(FILT) - 1
  e = dict(s0=I(0, 2), d0=I(0, 7), h0=B())
  v3 = I(-2, 2)
  return [
      Ob('state_axes_first_match', state_axes_prefix,
         dict(nf=I(1, 2 if quick else 3), f0=I(0, nf), f1=I(0, nf), f2=I(0, nf),
              a0=I(0, 3), a1=I(0, 3), a2=I(0, 3), s0=I(0, 0), d0=I(0, 7),
              h0=I(0, 0)), split=('nf', 'f0', 'a0') if quick else ('nf', 'f0', 'a0',
                                                                  'f1'),
         timeout=600, funcs=F,
         bounds='<=%d (filter, axis) pairs over 6 filters x 4 axis values, base '
                'graph + 1 extra edge from the root' % (2 if quick else 3)),
      Ob('inconsistent_aliasing_rejected', aliasing_rejected,
         dict(second=I(0, 1), a_first=I(0, 3), a_second=I(0, 3), f_first=I(0, nf),
              **e), split=('second', 'f_first'), timeout=600, funcs=F,
         bounds='two arguments (second = child of the first, or separate), base '
                'graph + 1 aliasing edge, all axis pairs'),
      Ob('vmap_like_per_index', vmap_like_per_index,
         dict(pa=I(0, 2), sa=I(0, 1), xa=I(0, 2), oa=I(0, 1), use_state_axes=B(),
              x0=v3, x1=v3, x2=v3, x3=v3, x4=v3, x5=v3, w0=v3, w1=v3, c0=v3, k0=v3,
              ta=I(0, 3), barevar=B()),
         split=('pa', 'sa', 'xa'), timeout=600, funcs=qualnames(
             IT.vmap, IT.VmapFn.__call__, IT._vmap_split_fn, IT.StateAxes.map_prefix,
             extract.to_tree, extract.from_tree), per_path_timeout=60.0,
         bounds='3 indices; Param axis 0/1/None, BatchStat axis 0/1 (StateAxes or one '
                'int), argument axis 0/1/None, out axis 0/1, symbolic int values',
         assumes=('jax.vmap replaced by the slice / call-per-index / stack reference '
                  'on an int-array stand-in',)),
      Ob('scan_like_loop', scan_like_loop,
         dict(pa=I(0, 1), xa=I(0, 1), oa=I(0, 1), reverse=B(), carry_stat=B(), x0=v3,
              x1=v3, x2=v3, w0=v3, w1=v3, c0=v3, k0=v3, s0=v3, varcarry=B(), ta=I(0, 3)),
         split=('pa', 'xa', 'reverse', 'carry_stat'), timeout=600, funcs=qualnames(
             IT.scan, IT.ScanFn.__call__, IT._scan_split_in, IT._scan_split_out,
             IT._scan_merge_in, IT._scan_merge_out), per_path_timeout=60.0,
         bounds='3 steps; Param axis 0/1, BatchStat carried or sliced, argument axis '
                '0/1, out axis 0/1, reverse, order-sensitive carry',
         assumes=('jax.lax.scan replaced by its documented loop, jnp.moveaxis by the '
                  'index permutation, on an int-array stand-in',)),
      Ob('grad_values', grad_values,
         dict(sel=I(0, 3), api=I(0, 1), w0=v3, w1=v3, c0=v3, k0=v3, x0=v3, x1=v3),
         split=('sel', 'api'), timeout=600, funcs=F, per_path_timeout=60.0,
         bounds='4 wrt selections x grad / value_and_grad, symbolic int values',
         assumes=('jax.grad / value_and_grad replaced by a reference AD on symbolic '
                  'ints (dual numbers); the oracle is the hand-derived gradient',)),
      Ob('grad_two_arguments', grad_two_arguments,
         dict(fi=I(0, nf), order=I(0, 1), x=I(-2, 2)), timeout=600, funcs=F),
      Ob('grad_wrt_routing', grad_wrt_routing,
         dict(fi=I(0, nf), use_diffstate=B(), **e, x=I(-2, 2)), split=('fi',),
         timeout=600, funcs=F),
  ]
