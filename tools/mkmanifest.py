#!/usr/bin/env python3
"""Regenerates MANIFEST.json from the table below (kept valid at all times)."""
import json, os
V = os.path.dirname(os.path.dirname(os.path.abspath(__file__)))
PY = '/venv/bin/python'

CHECKS = {}   # pid -> dict(text, note, technique, design_ref)
NA = {}

def check(pid, text, note, technique, ref):
  CHECKS[pid] = dict(text=text, note=note, technique=technique, ref=ref)

XH = ('CrossHair symbolic execution (z3 decides every branch) of the real flax '
      'functions over bounded symbolic arguments, path tree exhausted per obligation; '
      'counterexamples replayed on untraced code')

XHS = XH + '; JAX primitives replaced by stubs of their documented contract'
ENGC = ('symbolic-tensor execution of the real layer code (jnp/lax rebound to a z3-'
        'term array shim) + z3 unsat of output != reference (QF_UFNRA)')

check('C13',
      'SLICES of the property (symbolic-tensor proofs): attention masks as Boolean '
      'formulas; dot_product_attention_weights/dot_product_attention (Linen, NNX) '
      '== softmax(q.k/sqrt(d)+bias) with masked logits at the fill value; one step '
      'of LSTMCell/OptimizedLSTMCell/GRUCell/SimpleCell/MGUCell == documented '
      'recurrence, NNX LSTMCell == Linen; flip_sequences/_select_last_carry for '
      'symbolic per-row lengths (valid part exact, padding depends on padding); '
      'nn.RNN flags (time_major, reverse, keep_order, return_carry at ctor/call) '
      'with symbolic seq_lengths over a Python-loop scan stub: valid outputs and '
      'final carry equal the loop over the valid prefix; '
      'MultiHeadDotProductAttention(decode=True) stepwise == whole sequence under a '
      'causal mask (cache index, every step), with the float-saturation axiom '
      'exp(finfo.min) = 0.',
      '(Linen and NNX). Bidirectional/nnx.RNN over the real scan are NOT '
      'claimed; exp/sigmoid/tanh/sqrt uninterpreted (exp > 0 instantiated per '
      'application); floats as reals.',
      ENGC, 'DESIGN.md §4 C13, §9.5')
check('C14',
      'Bounded symbolic check: Linen filter algebra (union/intersect/subtract/'
      'in_filter/is_filter_empty/group_collections) over every pair of syntactic '
      'forms (DenyList nesting <=3) with names drawn symbolically from a pool that '
      'contains every source literal, and NNX filterlib predicates / split APIs '
      'against an independent reference. Holds for every value inside the bounds; '
      'nothing outside is claimed.',
      'Finite name pool stands for all names (functions only ==/hash names); '
      'CrossHair+z3 trusted; bounds in evidence.', XH, 'DESIGN.md §4 C14')

check('C16',
      'Bounded symbolic check: flatten_dict/unflatten_dict/path_aware_map and '
      'nnx.traversals on every nested-dict shape of depth<=3 (empty dicts, '
      'separator/tuple keys, keep_empty_nodes, is_leaf depth cut) against an '
      'independent reference flattening; NNX State<->flat<->pure-dict conversions '
      'and split/filter/merge/diff set laws over all subsets of a prefix-free path '
      'set.',
      'Shapes beyond depth 3 / 2 keys per level and key strings other than the '
      'pool are outside the claim; CrossHair+z3 trusted.', XH, 'DESIGN.md §4 C16')
check('C19',
      'Bounded symbolic check: Partitioned/meta and nnx.spmd add_axis/remove_axis/'
      'get_partition_spec for ranks 0..3, every stacking axis incl. negative, two '
      'nested stacked axes, with numpy.stack as the oracle for where the axis '
      'lands; logical_to_mesh_axes against a reference and the invariant that no '
      'mesh axis serves two dimensions; the real flax.core.lift.vmap / lift.scan '
      'driving remove_axis / add_axis for plain / In / Out collection axes (init and '
      'apply): names aligned with the slices the body sees and with the stacked '
      'results.',
      'In the lift obligation jax.vmap / axes_scan.scan are numpy slice-call-stack '
      'reference loops; nnx.vmap / nnx.scan driving nnx.spmd is outside.', XH,
      'DESIGN.md §4 C19, §9.5')

check('C01',
      'Bounded symbolic check: flax.core.apply/init and Module.apply on scope '
      'programs (<=2-3 ops over 3 collections, root/child scopes) under 12 mutable-'
      'filter forms, dict/FrozenDict inputs, symbolic leaf values, run twice and '
      'compared with an independent reference interpreter: inputs (incl. the filter '
      'object) untouched, repeatable, exact set of returned collections, writes to '
      'immutable collections raise, no aliasing between returned and supplied trees, '
      'sow/capture_intermediates do not change the output.',
      'Leaves are ints (arrays opaque); RNG key bits compared concretely only; '
      'longer programs outside the claim.', XH, 'DESIGN.md §4 C01')
check('C02',
      'Bounded symbolic check: compact/setup parents with <=2 children whose names '
      'come from a pool containing the auto-generated names, colliding own param / '
      'variable names, child reuse: init tree == reference tree, apply(init vars) '
      '== init output, submodule on its subtree, clashes raise, damaged trees raise, '
      'bind/unbind.',
      'lazy_init/eval_shape/jit(init) agreement NOT covered (needs real JAX abstract '
      'evaluation); fold_in stubbed (keys decided in C09).', XH, 'DESIGN.md §4 C02')
check('C03',
      'Bounded symbolic check: object graphs = base graph + symbolic extra edges '
      '(aliasing, self reference, cycles, lists/dicts, int-keyed dict, static and '
      'array attrs); split/merge round trip, first-match partition for 6 filter '
      'tuples, merge argument orders, state/update/clone/pop/iter_graph against an '
      'independent canonical-form model.',
      'Graphs beyond the edge bound are outside; identity compared for Modules and '
      'Variables (lists/dicts are pytree nodes).', XH, 'DESIGN.md §4 C03')
check('C04',
      'Bounded symbolic check of the NNX transform protocol (update_context / '
      'extract.to_tree / from_tree / split_inputs / merge_inputs / JitFn) for jit, '
      'remat, cond, switch, fori_loop, while_loop: user functions of <=2 ops '
      '(Variable updates, add/delete/re-bind attrs, new sub-objects, updates through '
      'an aliased second argument) leave the caller\'s own objects as the eager run '
      'leaves an identical graph.',
      'JAX primitives are contract stubs (jit/checkpoint identity, lax.* Python '
      'control flow): tracer leaks, trace-cache hits/misses, cached_partial, XLA '
      'results are NOT covered; the real nnx.jit cannot run in this sandbox.',
      XHS, 'DESIGN.md §4 C04')
check('C05',
      'Bounded symbolic check of flax.core.lift (pack/scope_fn/repack/publish) for '
      'checkpoint, jit, identity map_variables, cond, switch, while_loop: lifted '
      'program == plain program on the lifted collections (output term, error log, '
      'returned mutable collections), non-lifted collections untouched.',
      'JAX primitives are contract stubs; nn.jit trace-cache/fingerprint staleness '
      'and Module-level transform classes are NOT covered.', XHS, 'DESIGN.md §4 C05')
check('C08',
      'Bounded symbolic check of nnx.vmap / nnx.scan / nnx.grad: StateAxes.map_prefix '
      'resolves each Variable to the axis of the first matching filter; a Variable '
      'reachable from two arguments under different axis specifications is rejected '
      '(all pairs over {None,0,1,Carry}); nnx.grad differentiates exactly the wrt / '
      'DiffState selection and applies forward side effects once; and on SYMBOLIC int '
      'values nnx.vmap == per-index calls on the slices (Param axis 0/1/None, '
      'BatchStat axis 0/1, argument and out axes), nnx.scan == the Python loop '
      '(Carry, carried or sliced BatchStat, reverse, order-sensitive body), nnx.grad '
      '/ value_and_grad == the hand-derived gradient for 4 wrt selections, with the '
      "caller's own objects carrying the stacked / final state.",
      'jax.vmap, lax.scan, jnp.moveaxis and jax.grad are replaced by reference '
      'implementations on an int-array stand-in (slice / call / stack, loop, tape AD); '
      "JAX's own float numerics, split_rngs, transform_metadata and pmap are NOT "
      'claimed; 3 indices / steps.', XHS, 'DESIGN.md §4 C08, §9.5')
check('C09',
      'SMT (z3, sequences of bit-vector bytes): the byte string the real '
      '_fold_in_static hashes, recorded by running it on symbolic str/int stand-ins, '
      'is injective over path suffixes (separator on: counts 1..255 unconditionally, '
      'counts < 2^24 except the recorded finding; separator off: the two claimed '
      'cases). CrossHair: Linen make_rng keys are functions of (stream, path, '
      'count), pairwise distinct, unaffected by unrelated draws; NNX Rngs histories '
      '(draw/split/restore/reseed) never return a key twice.',
      'SHA-1/threefry treated as injective; ASCII names; real key bits and rng '
      'plumbing under real transforms outside.', XH + ' + z3 bit-vector/sequence '
      'queries generated from the real function', 'DESIGN.md §4 C09')
check('C10',
      'Bounded symbolic check: to_state_dict/from_state_dict over nested dict/'
      'FrozenDict/list/tuple/namedtuple/struct trees (symbolic leaves), restore by '
      'key under reordered state dicts, mismatch matrix (key sets, lengths, field '
      'names at depth 0..2) -> ValueError naming the path; chunk/unchunk on a list-'
      'backed array stand-in for thresholds 1..24 (thorough 1..140) bytes.',
      'numpy/msgpack byte codecs, dtype names, bfloat16/float8/int4, memory layouts '
      'are C code on concrete bytes and NOT covered.', XH, 'DESIGN.md §4 C10')
check('C11',
      'Bounded symbolic check (legacy msgpack back-end): save/restore/latest/'
      'available_steps against an in-memory file system; the FS operation at which '
      'the process dies is a symbolic int (every boundary + torn write); histories '
      'of <=2-3 saves with symbolic steps/keep/keep_every_n_steps/overwrite vs a '
      'reference retention model, continuation after the crash; step ordering over a '
      'pool with floats/negatives/exponents; AsyncManager schedules == sync.',
      'Orbax back-end NOT covered (atomicity is orbax/tensorstore code); in-memory '
      'FS semantics (atomic rename, torn write visible) assumed; time/logging '
      'stubbed.', XH, 'DESIGN.md §4 C11')
check('C12',
      'Symbolic-tensor proofs: Dense, DenseGeneral, Einsum, Embed(+attend), '
      'LayerNorm, RMSNorm, BatchNorm (train/inference, running stats), GroupNorm '
      '(incl. explicit reduction_axes), InstanceNorm, variance >= 0 under a '
      'round-off model of the means, Dropout, avg/max/min pool (explicit pads, 0..3 '
      'batch dims), Conv 1-D (SAME/VALID/CIRCULAR/REFLECT/CAUSAL/explicit, stride, '
      'kernel/input dilation, groups), ConvLocal 1-D, nnx.LoRA / LoRALinear, ConvTranspose 1-D (SAME/VALID/explicit vs a '
      'scatter sum; CIRCULAR periodicity and transpose-of-Conv) equal an independent reference for '
      'every value of every element/parameter/index at each instantiated '
      'configuration; NNX layer == Linen layer on shared parameters.',
      'Floats treated as reals; rsqrt uninterpreted with its defining axiom; '
      'configurations beyond the grid and fp8 layers NOT covered; shim '
      'validated per run against real jax.',
      ENGC, 'DESIGN.md §4 C12')
check('C13',
      'SLICES of the property (symbolic-tensor proofs): attention masks as Boolean '
      'formulas; dot_product_attention_weights/dot_product_attention (Linen, NNX) '
      '== softmax(q.k/sqrt(d)+bias) with masked logits at the fill value; one step '
      'of LSTMCell/OptimizedLSTMCell/GRUCell/SimpleCell/MGUCell == documented '
      'recurrence, NNX LSTMCell == Linen; flip_sequences/_select_last_carry for '
      'symbolic per-row lengths (valid part exact, padding depends on padding); '
      'nn.RNN flags (time_major, reverse, keep_order, return_carry at ctor/call) '
      'with symbolic seq_lengths over a Python-loop scan stub: valid outputs and '
      'final carry equal the loop over the valid prefix; '
      'MultiHeadDotProductAttention(decode=True) stepwise == whole sequence under a '
      'causal mask (cache index, every step), with the float-saturation axiom '
      'exp(finfo.min) = 0.',
      '(Linen and NNX). Bidirectional/nnx.RNN over the real scan are NOT '
      'claimed; exp/sigmoid/tanh/sqrt uninterpreted (exp > 0 instantiated per '
      'application); floats as reals.',
      ENGC, 'DESIGN.md §4 C13, §9.5')
check('C14',
      'Bounded symbolic check: Linen filter algebra (union/intersect/subtract/'
      'in_filter/is_filter_empty/group_collections) over every pair of syntactic '
      'forms (DenyList nesting <=3) with names drawn symbolically from a pool that '
      'contains every source literal, an unmentioned name and a substring name; NNX '
      'filterlib predicates / combinators (depth<=3) / split APIs against an '
      'independent reference.',
      'Finite name pool stands for all names (functions only ==/hash names); '
      'CrossHair+z3 trusted; bounds in evidence.', XH, 'DESIGN.md §4 C14')
check('C15',
      'Bounded symbolic check: histories of API calls and mutations of sources / '
      'returned values on FrozenDicts built 6 ways from 6 nested shapes (content + '
      'hash vs construction snapshot), order-independent ==/hash, struct.dataclass / '
      'PyTreeNode over every node/static layout of 3 fields.',
      '"forces a retrace" / jit-vmap-grad reconstruction need real tracing: only '
      'treedef (in)equality and tree_map/flatten are decided.', XH, 'DESIGN.md §4 C15')
check('C17',
      'TrainState.apply_gradients, nnx.Optimizer.update and nnx.TrainState executed with an '
      'uninterpreted optax transformation (covers every transformation '
      'parametrically): exactly one update(grads, opt_state, params), params = '
      'apply_updates(p, U), state = S, step+1, wrt respected, old functional state '
      'intact. Metrics: z3 proves Average/Welford/Accuracy/MultiMetric over every '
      'partition of a symbolic stream equal the statistic of the whole stream.',
      'optax arithmetic itself uninterpreted; floats as reals; sqrt in '
      'Welford.compute unchecked.',
      XH + ' + ' + ENGC, 'DESIGN.md §4 C17')
check('C18',
      'Bounded symbolic check: ToNNX around int-valued Linen modules and ToLinen '
      'around an NNX counter module (symbolic input/param/counter, <=2-3 calls, '
      'mutable on/off, Partitioned / sharding metadata), conversions both ways '
      'leave the source intact, registry histories stay 1-1.',
      'Wrapped modules avoid real RNG/array ops; deeper cross-API nesting outside.',
      XH, 'DESIGN.md §4 C18')
check('C20',
      'Bounded symbolic check: pad_shard_unpad on a segment-array stand-in for '
      'EVERY batch size >=1 and min_device_batch (unbounded symbolic ints; device '
      'count 1..16/64 enumerated); prefetch_to_device for symbolic source length / '
      'buffer size / failing position; PrefetchIterator under every producer/'
      'consumer schedule of <=10 (thorough 14) choices; _invert_perm; shard/'
      'unreplicate; scan_in_dim == nested loops in the given axis order for every '
      'tuple of distinct axes of a rank-3 input (lax.scan as its documented loop).',
      'np/jax rebound to stand-ins in flax.jax_utils; PrefetchIterator threads are a '
      'coroutine model generated from the AST (pre-emption at synchronisation '
      'events), counterexample schedules replayed on real threads; replicate, '
      'onehot NOT covered.',
      XH, 'DESIGN.md §4 C20')

check('C06',
      'Bounded symbolic check of the real flax.core.lift.vmap / lift.scan and the '
      'linen nn.vmap / nn.scan wrappers: bodies that read and update parameter, '
      'statistics, carried, broadcast and shared (None-axis) collections holding '
      'SYMBOLIC ints, every axis assignment from {0, 1, -1}, argument in/out axes, '
      'split / un-split rng streams, reverse, explicit length, 3 indices; compared '
      'with per-index calls / an explicit Python loop written on the slices of each '
      'collection (final carry, stacked outputs, every returned collection).',
      'jax.vmap and flax.core.axes_scan.scan are replaced by their documented '
      'semantics on small arrays (slice along in-axes, call once per index, stack '
      'along out-axes) and random.split by a token algebra, so axes_scan.scan\'s own '
      'jaxpr machinery (transpose_to/from_front, broadcast pass, constancy check), '
      'unroll factors, remat_scan and key bits are NOT covered.',
      XHS, 'DESIGN.md §4 C06, §9.5')
check('C07',
      'Bounded symbolic check of the real flax.core.lift.vjp / value_and_grad / jvp / '
      'custom_vjp and the linen nn.vjp / nn.value_and_grad / nn.jvp wrappers on a '
      'polynomial body over parameter, statistics and counter collections holding '
      'SYMBOLIC ints: primal output, cotangents of exactly the selected collections '
      '(4 vjp_variables filters) and of every primal input, tangents incl. dropped '
      'empty tangent collections, has_aux, forward side effects published exactly '
      'once, custom backward rule used only when differentiating -- against the '
      'hand-derived derivative.',
      'jax.vjp / jax.jvp / jax.custom_vjp are replaced by a reference AD on symbolic '
      'ints (dual numbers), so equality with JAX\'s floating-point AD, reduce_axes '
      'and everything that only exists under tracing are NOT covered; bodies are '
      'polynomials over 2-element arrays.',
      XHS, 'DESIGN.md §4 C07, §9.5')

def main():
  checks = []
  for pid in sorted(CHECKS):
    c = CHECKS[pid]
    checks.append(dict(
        property_id=pid,
        quick_cmd='%s vf/run.py %s --tier quick' % (PY, pid),
        thorough_cmd='%s vf/run.py %s --tier thorough' % (PY, pid),
        evidence_file='evidence/%s.json' % pid,
        replay_cmd_template='%s vf/run.py --replay {path}' % PY,
        engine='vf',
        level_claimed=dict(category='other', text=c['text'], design_ref=c['ref']),
        level_note=c['note'], technique=c['technique']))
  props = [json.loads(l)['id'] for l in open(os.path.join(V, 'properties.jsonl'))]
  na = []
  for pid in props:
    if pid in CHECKS:
      continue
    na.append(dict(property_id=pid, reason=NA.get(
        pid, 'check not built yet in this revision (planned, see DESIGN.md §4)')))
  m = dict(
      version=1,
      setup_cmd='%s -c "import sys; sys.path.insert(0, \'/verif\'); from vf import env; env.ensure_venv()"' % PY,
      hooks=dict(guard='GOOGLE_FLAX_VERIF',
                 enable='no source hooks: checks import /repo\'s working tree and '
                        'rebind module globals from the harness process; '
                        'GOOGLE_FLAX_VERIF=1 is exported by vf/run.py for '
                        'completeness',
                 baseline_off_cmd='%s tools/baseline.py' % PY,
                 source_commits=[], add_only=True),
      engines=[dict(name='vf', path='vf/run.py', serves_properties=sorted(CHECKS),
                    kind_free_text='solver-based checking of the real code: '
                    'CrossHair (symbolic execution of Python with z3) path '
                    'exhaustion, AST->z3 translation, symbolic-tensor execution')],
      checks=checks,
      notes='See DESIGN.md. Exit codes: 0 held / 1 replayed violation / 3 harness '
            'error. known_findings.json lists recorded and fixed findings.',
      not_applicable=na)
  json.dump(m, open(os.path.join(V, 'MANIFEST.json'), 'w'), indent=1)
  print('wrote MANIFEST.json: %d checks, %d not_applicable' % (len(checks), len(na)))

if __name__ == '__main__':
  main()
