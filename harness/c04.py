"""C04 -- NNX transforms keep Python reference semantics (flax's split/merge
protocol with the JAX primitive replaced by a contract stub)."""
import jax
import numpy as np
from flax import nnx
from flax.nnx import graph as G
from flax.nnx import extract
from flax.nnx.transforms import transforms as T
from flax.nnx.transforms import iteration as IT
from flax.nnx.transforms import compilation as CM
from flax.nnx.transforms import autodiff as AD
from flax.nnx.transforms import general as GN

from harness.common import qualnames
from harness import graphs as GR
from vf.ob import Ob
from vf.xh import I, B, Reject, pick


class _Lax:
  @staticmethod
  def cond(pred, t, f, *ops, **kw):
    # like lax.cond under tracing: BOTH branch functions are executed (traced),
    # the selected result is returned
    rt = t(*ops)
    rf = f(*ops)
    return rt if pred else rf

  @staticmethod
  def switch(index, branches, *ops):
    n = len(branches)
    i = 0 if index < 0 else (n - 1 if index >= n else index)   # lax clamps
    results = [b(*ops) for b in branches]                      # all are traced
    return results[i]

  @staticmethod
  def while_loop(c, b, init):
    v = init
    while c(v):
      v = b(v)
    return v

  @staticmethod
  def fori_loop(lo, hi, body, init, unroll=None):
    v = init
    for i in range(lo, hi):
      v = body(i, v)
    return v

  def __getattr__(self, name):
    return getattr(jax.lax, name)


class _JaxProxy:
  lax = _Lax()

  @staticmethod
  def jit(f, **kw):
    return f

  @staticmethod
  def checkpoint(f, **kw):
    return f

  remat = checkpoint

  def __getattr__(self, name):
    return getattr(jax, name)


class TEnv:
  MODS = (T, IT, CM, AD)

  def __enter__(self):
    self.saved = [m.jax for m in self.MODS]
    for m in self.MODS:
      m.jax = _JaxProxy()
    return self

  def __exit__(self, *a):
    for m, s in zip(self.MODS, self.saved):
      m.jax = s
    return False


NOPS = 10
STRUCT_OPS = (2, 3, 4, 5)
NESTED = {'t': None}     # the transform under test (None: eager reference run)


def _nested(m, other, x):
  """op 9: the same transform once more, inside the transformed function"""
  t = NESTED['t']

  def g(m_, o_, x_):
    if hasattr(m_, 'p'):
      m_.p.value = m_.p.value + 2 * x_ + 1
    m_.child.b.value = m_.child.b.value + 1
    if NESTED.get('structural'):
      m_.nested_new = nnx.Param(x_ + 2)
    return m_.child.b.value
  if t is None:
    # eager reference: the same Python control flow, without the transform
    kind = NESTED.get('kind')
    if kind == 'cond':
      return g(m, other, x) if x >= 0 else m.child.b.value * 0 + 5
    return g(m, other, x)           # jit, remat, switch(1), one-trip loops
  if t == 'jit':
    return nnx.jit(g)(m, other, x)
  if t == 'remat':
    return nnx.remat(g)(m, other, x)
  if t == 'cond':
    return nnx.cond(x >= 0, g, lambda a, b, c: a.child.b.value * 0 + 5, m, other, x)
  if t == 'switch':
    return nnx.switch(1, [lambda a, b, c: a.child.b.value * 0 + 5, g], m, other, x)
  if t == 'fori':
    return nnx.fori_loop(0, 1, lambda i, v: (v[0], v[1], v[2] + g(v[0], v[1], x)),
                         (m, other, 0))[2]
  return nnx.while_loop(lambda v: v[3] < 1,
                        lambda v: (v[0], v[1], v[2] + g(v[0], v[1], x), v[3] + 1),
                        (m, other, 0, 0))[2]


def mutate(m, other, x, op):
  """one step of the user function; returns a contribution to the result"""
  if op == 0:
    if not hasattr(m, 'p'):
      return -1
    m.p.value = m.p.value + x
    return m.p.value
  if op == 1:
    m.child.b.value = m.child.b.value * 2 + x
    return 0
  if op == 2:
    m.added = nnx.Param(x + 1)
    return 1
  if op == 3:
    if hasattr(m, 'p'):
      del m.p
    return 2
  if op == 4:
    m.alias = m.child          # re-bind: new reference to an existing object
    return 3
  if op == 5:
    sub = GR.Mod('sub')
    sub.q = nnx.Param(x * 3)
    m.child.sub = sub
    return 4
  if op == 6:
    other.b.value = other.b.value + 10     # through the second argument
    return other.b.value
  if op == 8:
    # record-like pytree attribute: the two fields are treated differently
    m.rec.total.value = m.rec.total.value + x
    return m.rec.count.value
  if op == 9:
    return _nested(m, other, x)
  return (m.p.value if hasattr(m, 'p') else 0) * 2        # read only


def user_fn(prog, bare=False):
  def f(m, other, x):
    y = x
    for op in prog:
      y = y + mutate(m, other, x, op)
    return y
  if not bare:
    return f

  def g(v, m, other, x):
    # a bare Variable handed in as the first argument (and aliased by m.p)
    v.value = v.value + 1
    return f(m, other, x) + v.value
  return g


def _build(edge, second, v0, v1, v2):
  edges = [] if edge is None else [edge]
  o = GR.build(edges, v0, v1, v2, table=True, record=True)
  other = pick([o['M1'], o['M2']], second)
  if second == 1:
    o['M2'].b = nnx.BatchStat(v2 + 5)
  return o, o['M0'], other


def _canon_pair(m, other):
  c, ident, _ = GR.canon([m, other])
  return c


def jit_remat_like_eager(t, ne, s0, d0, h0, second, v0, v1, v2, x, n, o0, o1, calls,
                         bare=0):
  """nnx.jit / nnx.remat: after the call the caller's own objects are in the state
  the eager call leaves on an identical graph (values, added / removed / re-bound
  attributes, new sub-objects, aliasing); same return value; repeated calls."""
  edge = None
  if ne:
    edge = GR.pick_edges(1, [(s0, d0, h0)], 3, 7)[0]
    if edge[0] == 2 and edge[1] == 2:
      raise Reject()            # a list containing itself is not a finite tree
  elif s0 != 0 or d0 != 0 or h0:
    raise Reject()
  prog = []
  for o in (o0, o1)[:n]:
    prog.append(pick(list(range(NOPS)), o))
  for o in (o0, o1)[n:]:
    if o != 0:
      raise Reject()
  f = user_fn(prog, bool(bare))
  oa, ma, othera = _build(edge, second, v0, v1, v2)     # transformed run
  ob, mb, otherb = _build(edge, second, v0, v1, v2)     # eager reference
  # bare == 1: the module's own Param is also passed first, as a bare Variable;
  # bare == 2: a Variable that belongs to no module
  fresh_a, fresh_b = nnx.Param(v1 + 40), nnx.Param(v1 + 40)
  pre_a = (oa['P0'],) if bare == 1 else ((fresh_a,) if bare == 2 else ())
  pre_b = (ob['P0'],) if bare == 1 else ((fresh_b,) if bare == 2 else ())
  ids_before = {k: id(v) for k, v in oa.items() if k in ('M0', 'M1', 'M2')}
  with TEnv():
    tf = nnx.jit(f) if t == 0 else nnx.remat(f)
    NESTED['structural'] = True
    NESTED['kind'] = 'jit' if t == 0 else 'remat'
    for i in range(calls):
      NESTED['t'] = 'jit' if t == 0 else 'remat'
      try:
        ya = tf(*pre_a, ma, othera, x)
        erra = None
      except (AttributeError, ValueError) as e:
        ya, erra = None, type(e).__name__
      finally:
        NESTED['t'] = None
      try:
        yb = f(*pre_b, mb, otherb, x)
        errb = None
      except (AttributeError, ValueError) as e:
        yb, errb = None, type(e).__name__
      if erra != errb:
        return False
      if erra is not None:
        return True       # the user function itself failed: nothing is claimed
      if ya != yb:
        return False
      if _canon_pair(ma, othera) != _canon_pair(mb, otherb):
        return False
      if bare == 2 and fresh_a.value != fresh_b.value:
        return False
  # it is the caller's own objects that carry the changes
  return ids_before == {k: id(v) for k, v in oa.items() if k in ('M0', 'M1', 'M2')}


def control_flow_like_python(t, second, v0, v1, v2, x, o0, o1, sel, trips):
  """nnx.cond / switch / while_loop / fori_loop: Variable updates equal the Python
  control flow on an identical graph; structural edits inside are rejected"""
  ops = [pick(list(range(NOPS)), o0), pick(list(range(NOPS)), o1)]
  structural = any(o in STRUCT_OPS for o in ops)
  if structural and t in (0, 1):
    # under real lax.cond/switch both branches are traced and a structure change
    # fails jax's own output-structure check; that check is jax's, not flax's, and
    # does not exist under the Python-control-flow stub
    raise Reject()
  if structural and (v0 != 0 or v1 != 0 or v2 != 0 or x != 0):
    # a structural edit inside a loop body must be rejected whatever the values are;
    # flax's error message renders the whole graph, which would make CrossHair
    # enumerate every value: one value assignment is enough for this case
    raise Reject()
  oa, ma, othera = _build(None, second, v0, v1, v2)
  ob, mb, otherb = _build(None, second, v0, v1, v2)
  fa = user_fn(ops[:1])
  fb_ = user_fn(ops[1:])
  NESTED['structural'] = False
  NESTED['kind'] = ('cond', 'switch', 'fori', 'while')[t]
  with TEnv():
    NESTED['t'] = ('cond', 'switch', 'fori', 'while')[t]
    try:
      if t == 0:
        ya = nnx.cond(sel == 0, fa, fb_, ma, othera, x)
      elif t == 1:
        ya = nnx.switch(sel, [fa, fb_, lambda m, o, xx: xx], ma, othera, x)
      elif t == 2:
        def body(i, val):
          m, o, acc = val
          return (m, o, acc + user_fn(ops)(m, o, x))
        _, _, ya = nnx.fori_loop(0, trips, body, (ma, othera, 0))
      else:
        def cond_fn(val):
          m, o, acc, i = val
          return i < trips

        def body(val):
          m, o, acc, i = val
          return (m, o, acc + user_fn(ops)(m, o, x), i + 1)
        _, _, ya, _ = nnx.while_loop(cond_fn, body, (ma, othera, 0, 0))
      erra = None
    except ValueError:
      ya, erra = None, 'ValueError'
    finally:
      NESTED['t'] = None
  # python reference
  if t == 0:
    used = ops[:1] if sel == 0 else ops[1:]
    yb = user_fn(used)(mb, otherb, x)
    ran = used
  elif t == 1:
    used = ops[:1] if sel <= 0 else (ops[1:] if sel == 1 else [])
    yb = user_fn(used)(mb, otherb, x) if used else x
    ran = used
  else:
    ran = ops if trips > 0 else []
    yb = 0
    if not any(o in STRUCT_OPS for o in ran):
      for i in range(trips):
        yb = yb + user_fn(ops)(mb, otherb, x)
  if any(o in STRUCT_OPS for o in ran):
    # structure changes inside while/fori bodies must raise (flax's own check)
    return erra == 'ValueError'
  if erra is not None:
    return False
  return ya == yb and _canon_pair(ma, othera) == _canon_pair(mb, otherb)


OLD_OPS = [0, 1, 2, 7]


def _pair(pos, onew, oold):
  new, old = 8 + onew, pick(OLD_OPS, oold)
  return (new, old) if pos == 0 else (old, new)


def jit_remat_new_ops(t, second, v0, v1, v2, x, pos, onew, oold, calls, bare=0):
  """the two later ops (8: record-like pytree attribute whose fields are treated
  differently, 9: the same transform nested in itself) before / after an op of the
  original set, under nnx.jit / nnx.remat"""
  o0, o1 = _pair(pos, onew, oold)
  return jit_remat_like_eager(t, 0, 0, 0, False, second, v0, v1, v2, x, 2, o0, o1,
                              calls, bare)


def control_flow_new_ops(t, second, v0, v1, v2, x, pos, onew, oold, sel, trips):
  """ops 8 / 9 under nnx.cond / switch / fori_loop / while_loop"""
  o0, o1 = _pair(pos, onew, oold)
  return control_flow_like_python(t, second, v0, v1, v2, x, o0, o1, sel, trips)


def aliased_inputs_are_one_object(v0, v2, x, t):
  """the same object passed as two arguments is one object inside"""
  def f(a, b, xx):
    same = a is b
    a.b.value = a.b.value + xx
    return (1 if same else 0), b.b.value
  m = GR.Mod('m')
  m.b = nnx.BatchStat(v2)
  with TEnv():
    tf = nnx.jit(f) if t == 0 else nnx.remat(f)
    same, seen = tf(m, m, x)
  return same == 1 and seen == v2 + x and m.b.value == v2 + x


EXPLANATION = (
    'C04: user functions = sequences of <=2 ops (Variable update, update through a '
    'second argument, add / delete / re-bind attribute, create sub-object, read) '
    'on the C03 graphs (optional extra aliasing edge, second argument aliasing the '
    'child or separate), run through nnx.jit / remat (<=2 repeated calls) and '
    'nnx.cond / switch / fori_loop / while_loop (trip counts 0..2) and compared '
    'with the eager / Python run on an identical graph.')
ASSUMPTIONS = (
    'jax.jit / jax.checkpoint / lax.cond / switch / while_loop / fori_loop are '
    'replaced in flax.nnx.transforms.* by stubs of their documented contract on '
    'Python values; everything that only exists under real tracing (tracer leaks, '
    'trace-cache hits/misses, StaticCache / cached_partial staleness, XLA results) '
    'is NOT covered; the real nnx.jit cannot run in this sandbox at all',
    'jax.core.get_opaque_trace_state compat shim installed by the harness process',
)


def obligations(tier):
  quick = tier == 'quick'
  F = qualnames(CM.jit, CM.JitFn.__call__, AD.remat, T.cond, T.switch,
                IT.while_loop, IT.fori_loop, GN.split_inputs, GN.merge_inputs,
                extract.to_tree, extract.from_tree, G.update_context,
                G.SplitContext.split if hasattr(G.SplitContext, 'split') else
                G.split, G.flatten, G.unflatten)
  v = I(-2, 2)
  op = I(0, 7)        # ops 8 and 9 have their own (smaller) obligations
  return [
      Ob('jit_remat_like_eager', jit_remat_like_eager,
         dict(t=I(0, 1), ne=I(0, 1), s0=I(0, 2), d0=I(0, 6), h0=B(),
              second=I(0, 1), v0=v, v1=v, v2=v, x=v, n=I(1, 2), o0=op, o1=op,
              calls=I(1, 1 if quick else 2), bare=I(0, 2)),
         split=('t', 'ne', 'n', 'o0', 'second'), timeout=900, funcs=F,
         per_path_timeout=60.0,
         bounds='jit, remat; base graph + <=1 extra edge; second argument = the '
                'child (aliases) or a separate module; <=2 ops of 8 kinds; %s '
                'calls' % ('1' if quick else '<=2')),
      Ob('control_flow_like_python', control_flow_like_python,
         dict(t=I(0, 3), second=I(0, 1), v0=v, v1=v, v2=v, x=v, o0=op, o1=op,
              sel=I(0, 2), trips=I(0, 2)),
         split=('t', 'o0', 'o1', 'second'), timeout=900, funcs=F,
         per_path_timeout=60.0,
         bounds='cond/switch over 2 branches (+noop), fori/while trip counts 0..2'),
      Ob('jit_remat_new_ops', jit_remat_new_ops,
         dict(t=I(0, 1), second=I(0, 1), v0=v, v1=v, v2=v, x=v, pos=I(0, 1),
              onew=I(0, 1), oold=I(0, len(OLD_OPS) - 1),
              calls=I(1, 1 if quick else 2), bare=I(0, 2)),
         split=('t', 'pos', 'onew', 'oold', 'second'), timeout=900, funcs=F,
         per_path_timeout=60.0,
         bounds='op 8 (record-like NamedTuple attribute, fields treated differently) '
                'and op 9 (the same transform nested in itself, with a structural '
                'edit) before / after an op of %r' % (OLD_OPS,)),
      Ob('control_flow_new_ops', control_flow_new_ops,
         dict(t=I(0, 3), second=I(0, 1), v0=v, v1=v, v2=v, x=v, pos=I(0, 1),
              onew=I(0, 1), oold=I(0, len(OLD_OPS) - 1), sel=I(0, 2), trips=I(0, 2)),
         split=('t', 'pos', 'onew', 'oold', 'second'), timeout=900, funcs=F,
         per_path_timeout=60.0,
         bounds='ops 8 / 9 under cond / switch / fori_loop / while_loop'),
      Ob('aliased_inputs_one_object', aliased_inputs_are_one_object,
         dict(v0=v, v2=v, x=v, t=I(0, 1)), timeout=300, funcs=F),
  ]
