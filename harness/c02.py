"""C02 -- variable tree mirrors the module tree; init and apply agree."""
import numpy as np
import jax
import flax.linen as nn
from flax import errors
from flax.core import scope as S

from harness.common import qualnames
from harness.c01 import plain, snapshot
from vf.ob import Ob
from vf.xh import I, B, Reject, pick

_KEY = jax.random.key(0)


class RngStub:
  """key derivation is irrelevant for C02 (decided under C09) and real jax.random
  cannot run under the symbolic tracer: fold_in returns its key unchanged"""

  def __enter__(self):
    self.saved = (S.random, S.jnp)

    class R:
      fold_in = staticmethod(lambda key, data: key)

      def __getattr__(self, name):
        return getattr(jax.random, name)

    class J:
      uint32 = staticmethod(lambda x: x)

      def __getattr__(self, name):
        import jax.numpy as jnp
        return getattr(jnp, name)
    S.random, S.jnp = R(), J()
    return self

  def __exit__(self, *a):
    S.random, S.jnp = self.saved
    return False


def with_rng_stub(fn):
  import functools

  @functools.wraps(fn)
  def g(*a, **k):
    with RngStub():
      return fn(*a, **k)
  return g


class Leaf(nn.Module):
  mult: int = 3

  @nn.compact
  def __call__(self, x):
    w = self.param('w', lambda rng: self.mult)
    c = self.variable('stats', 'c', lambda: 1)
    return x * w + c.value


NAME_POOL = [None, 'Leaf_0', 'Leaf_1', 'a', 'w']     # None = automatic name
OWN_POOL = [None, 'w', 'a', 'Leaf_0', 'k']            # parent's own param name


class Parent(nn.Module):
  names: tuple = ()          # explicit / None child names, in creation order
  own: object = None         # name of the parent's own param (or None)
  own_first: bool = False    # create the own param before the children
  reuse: bool = False        # call the first child twice
  var_name: object = None    # a 'stats' variable of the parent
  var_first: bool = False    # declare that variable before the children

  @nn.compact
  def __call__(self, x):
    y = x
    vfirst = None
    if self.var_name is not None and self.var_first:
      vfirst = self.variable('stats', self.var_name, lambda: 7)
    if self.own is not None and self.own_first:
      y = y + self.param(self.own, lambda rng: 5)
    kids = []
    for nm in self.names:
      kid = Leaf(name=nm) if nm is not None else Leaf()
      kids.append(kid)
      y = kid(y)
    if self.reuse and kids:
      y = kids[0](y)
    if self.own is not None and not self.own_first:
      y = y + self.param(self.own, lambda rng: 5)
    if self.var_name is not None:
      v = vfirst if self.var_first else self.variable('stats', self.var_name,
                                                      lambda: 7)
      y = y + v.value
    return y


class SetupParent(nn.Module):
  def setup(self):
    self.first = Leaf()
    self.second = Leaf(mult=4)
    self.lst = [Leaf(mult=5), Leaf(mult=6)]

  def __call__(self, x):
    y = self.second(self.first(x))
    for m in self.lst:
      y = m(y)
    return y


def _expected(names, own, own_first, reuse, var_name):
  """reference: expected variable tree, or an expected error class"""
  resolved = []
  auto = 0
  taken = set()
  if own is not None and own_first:
    taken.add(own)
  for nm in names:
    if nm is None:
      # deterministic automatic name: Leaf_<index among auto-named Leafs>
      while True:
        cand = 'Leaf_%d' % auto
        auto += 1
        break
      nm_res = cand
    else:
      nm_res = nm
    if nm_res in taken:
      return None, 'clash'
    taken.add(nm_res)
    resolved.append(nm_res)
  if own is not None and not own_first:
    if own in taken:
      return None, 'clash'
    taken.add(own)
  if var_name is not None:
    # a variable may share a name with nothing else in this scope except a
    # variable of another collection
    if var_name in resolved:
      return None, 'clash'
    if own is not None and var_name == own:
      pass        # param 'x' and stats variable 'x': different collections, allowed
  tree = {'params': {}, 'stats': {}}
  for r in resolved:
    tree['params'][r] = {'w': 3}
    tree['stats'][r] = {'c': 1}
  if own is not None:
    tree['params'][own] = 5
  if var_name is not None:
    tree['stats'][var_name] = 7
  tree = {c: v for c, v in tree.items() if v}     # empty collections do not exist
  return (tree, resolved), None


def _out(resolved, own, own_first, reuse, var_name, x, tree):
  y = x
  if own is not None and own_first:
    y = y + tree['params'][own]
  for r in resolved:
    y = y * tree['params'][r]['w'] + tree['stats'][r]['c']
  if reuse and resolved:
    r = resolved[0]
    y = y * tree['params'][r]['w'] + tree['stats'][r]['c']
  if own is not None and not own_first:
    y = y + tree['params'][own]
  if var_name is not None:
    y = y + tree['stats'][var_name]
  return y


@with_rng_stub
def tree_mirrors_modules(nk, n0, n1, own, own_first, reuse, vn, x, w_new,
                         var_first=False):
  """init's tree sits at <submodule name>/<variable>, auto names are deterministic,
  apply(init vars) reproduces init's output without creating / dropping anything,
  a submodule applied on its own subtree computes what it computes in the parent,
  name clashes raise."""
  names = []
  for n in (n0, n1)[:nk]:
    names.append(pick(NAME_POOL, n))
  for n in (n0, n1)[nk:]:
    if n != 0:
      raise Reject()
  own_nm = pick(OWN_POOL, own)
  var_nm = pick([None, 'Leaf_0', 'v', 'w'], vn)
  mod = Parent(names=tuple(names), own=own_nm, own_first=bool(own_first),
               reuse=bool(reuse), var_name=var_nm, var_first=bool(var_first))
  exp, err = _expected(names, own_nm, bool(own_first), bool(reuse), var_nm)
  # automatic names skip explicit names already in use? no: an explicit name equal
  # to an auto name that comes later clashes -- decided by the reference above
  try:
    y0, vs = mod.init_with_output(_KEY, x)
  except (errors.NameInUseError, ValueError) as e:
    return err == 'clash'
  if err is not None:
    return False
  tree, resolved = exp
  if plain(vs) != tree:
    return False
  if y0 != _out(resolved, own_nm, bool(own_first), bool(reuse), var_nm, x, tree):
    return False
  # apply consumes exactly what init produced
  snap = snapshot(vs)
  y1 = mod.apply(vs, x)
  if y1 != y0 or snapshot(vs) != snap:
    return False
  y2, upd = mod.apply(vs, x, mutable=True)
  if y2 != y0 or plain(upd) != tree:
    return False
  # different parameter values: still addressed by name
  if resolved:
    vs2 = plain(vs)
    vs2['params'][resolved[-1]]['w'] = w_new
    t2 = plain(vs2)
    if mod.apply(vs2, x) != _out(resolved, own_nm, bool(own_first), bool(reuse),
                                  var_nm, x, t2):
      return False
    # the submodule alone on its own subtree
    r = resolved[-1]
    sub = {'params': vs2['params'][r], 'stats': vs2['stats'][r]}
    if Leaf().apply(sub, x) != x * w_new + 1:
      return False
  return True


@with_rng_stub
def damaged_tree(kind, which, x):
  """a missing / wrongly shaped / misplaced parameter raises instead of being
  re-initialised"""
  mod = Parent(names=('a', None), own='k')
  vs = plain(mod.init(_KEY, x))
  tgt = pick(['a', 'Leaf_0'], which)
  if kind == 0:
    del vs['params'][tgt]['w']
    exc = errors.ScopeParamNotFoundError
  elif kind == 1:
    vs['params'][tgt]['w'] = np.zeros((2,))
    exc = errors.ScopeParamShapeError
  elif kind == 2:
    vs['params']['renamed'] = vs['params'].pop(tgt)
    exc = (errors.ScopeParamNotFoundError, errors.ScopeCollectionNotFound)
  elif kind == 3:
    del vs['params']['k']
    exc = errors.ScopeParamNotFoundError
  elif kind == 4:
    del vs['stats'][tgt]
    exc = (errors.ScopeVariableNotFoundError, errors.ScopeCollectionNotFound)
  else:
    del vs['params']
    exc = (errors.ScopeCollectionNotFound, errors.ScopeParamNotFoundError)
  try:
    mod.apply(vs, x)
  except exc:
    return True
  return False


class Branch(nn.Module):
  inner: nn.Module

  @nn.compact
  def __call__(self, x):
    return self.inner(x) + 1


class TwoBranches(nn.Module):
  left: nn.Module
  right: nn.Module

  def __call__(self, x):
    return self.right(self.left(x))


@with_rng_stub
def shared_between_parents(x, w):
  """one module instance used by two different children: a single set of
  variables (under its first owner), apply == init, bind/unbind keep the sharing"""
  d = Leaf()
  top = TwoBranches(Branch(d), Branch(d))
  y, vs = top.init_with_output(_KEY, x)
  vs = plain(vs)
  if vs != {'params': {'left': {'inner': {'w': 3}}},
            'stats': {'left': {'inner': {'c': 1}}}}:
    return False
  exp = ((x * 3 + 1) + 1) * 3 + 1 + 1
  if y != exp or top.apply(vs, x) != exp:
    return False
  vs['params']['left']['inner']['w'] = w
  expw = ((x * w + 1) + 1) * w + 1 + 1
  bound = top.bind(vs)
  if bound(x) != expw:
    return False
  unbound, uv = bound.unbind()
  return plain(uv) == vs and unbound.apply(uv, x) == expw


@with_rng_stub
def setup_style(x, w):
  """setup-style modules: attribute names (and list indices) are the tree keys;
  bind()/unbind round trip"""
  mod = SetupParent()
  y, vs = mod.init_with_output(_KEY, x)
  want = {'first': 3, 'second': 4, 'lst_0': 5, 'lst_1': 6}
  if plain(vs) != {'params': {k: {'w': m} for k, m in want.items()},
                   'stats': {k: {'c': 1} for k in want}}:
    return False
  exp = x
  for k in ('first', 'second', 'lst_0', 'lst_1'):
    exp = exp * want[k] + 1
  if y != exp or mod.apply(vs, x) != exp:
    return False
  vs2 = plain(vs)
  vs2['params']['second']['w'] = w
  bound = mod.bind(vs2)
  if bound.second(x) != x * w + 1:
    return False
  m2, v2 = bound.unbind()
  if plain(v2) != vs2:
    return False
  sub, subv = bound.second.unbind()
  return sub.apply(subv, x) == x * w + 1 and plain(subv) == {
      'params': {'w': w}, 'stats': {'c': 1}}


DECL_NAMES = ['w', 'a']
DECL_KINDS = ['param', 'stats', 'cache', 'child']


class Decl(nn.Module):
  """a sequence of declarations in one compact scope"""
  steps: tuple = ()

  @nn.compact
  def __call__(self, x):
    y = x
    for i, (kind, nm) in enumerate(self.steps):
      if kind == 'param':
        y = y + self.param(nm, lambda rng: 10 + i)
      elif kind == 'child':
        y = Leaf(name=nm)(y)
      else:
        y = y + self.variable(kind, nm, lambda: 20 + i).value
    return y


@with_rng_stub
def declaration_sequences(k0, n0, k1, n1, k2, n2, x):
  """three declarations (param / variable of two collections / named child) in one
  scope: a name may be used once per collection and never together with a
  submodule; every clash raises, nothing is silently shared or overwritten"""
  steps = tuple((pick(DECL_KINDS, k), pick(DECL_NAMES, n))
                for k, n in ((k0, n0), (k1, n1), (k2, n2)))
  taken = {}
  clash = False
  tree = {}
  y = x
  for i, (kind, nm) in enumerate(steps):
    col = None if kind == 'child' else ('params' if kind == 'param' else kind)
    cols = taken.setdefault(nm, set())
    if col in cols or None in cols or (col is None and cols):
      clash = True
      break
    cols.add(col)
    if kind == 'child':
      tree.setdefault('params', {})[nm] = {'w': 3}
      tree.setdefault('stats', {})[nm] = {'c': 1}
      y = y * 3 + 1
    else:
      tree.setdefault(col, {})[nm] = (10 if kind == 'param' else 20) + i
      y = y + tree[col][nm]
  mod = Decl(steps=steps)
  try:
    y0, vs = mod.init_with_output(_KEY, x)
  except (errors.NameInUseError, ValueError):
    return clash
  if clash or plain(vs) != tree or y0 != y:
    return False
  y1, upd = mod.apply(vs, x, mutable=True)
  return y1 == y and plain(upd) == tree and mod.apply(vs, x) == y


@with_rng_stub
def bind_adopts_bound_submodule(x, w1, w2, keep):
  """bind(v) agrees with apply(v) also when an attribute submodule was taken from
  another, still alive, bound module: it is re-adopted under the new scope and
  reads v, not the variables of its former parent"""
  mod = SetupParent()
  vs1 = plain(mod.init(_KEY, x))
  vs1['params']['second']['w'] = w1
  bm = mod.bind(vs1)
  enc = bm.second
  if enc(x) != x * w1 + 1:
    return False
  outer = Branch(inner=enc)
  v2 = {'params': {'inner': {'w': w2}}, 'stats': {'inner': {'c': 1}}}
  want = x * w2 + 1 + 1
  if outer.apply(v2, x) != want:
    return False
  if not keep:
    del bm
  b2 = outer.bind(v2)
  if b2(x) != want:
    return False
  if plain(b2.inner.variables) != {'params': {'w': w2}, 'stats': {'c': 1}}:
    return False
  m3, v3 = b2.unbind()
  if plain(v3) != v2 or m3.apply(v3, x) != want:
    return False
  # the former parent is untouched
  return enc(x) == x * w1 + 1


class SetupClash(nn.Module):
  kind: int = 0

  def setup(self):
    if self.kind == 0:
      self.a = Leaf(name='proj')
      self.b = Leaf(name='proj', mult=4)          # same explicit name twice
    elif self.kind == 1:
      self.layers = [Leaf(), Leaf(mult=4)]        # -> layers_0, layers_1
      self.layers_0 = Leaf(mult=5)                # collides with the list entry
    elif self.kind == 2:
      self.layers_0 = Leaf(mult=5)
      self.layers = [Leaf(), Leaf(mult=4)]
    else:
      self.a = Leaf()
      self.b = Leaf(mult=4)                       # no clash (control)

  def __call__(self, x):
    if self.kind == 0:
      return self.b(self.a(x))
    if self.kind in (1, 2):
      return self.layers_0(self.layers[1](self.layers[0](x)))
    return self.b(self.a(x))


class Nest(nn.Module):
  kind: int = 0

  @nn.compact
  def __call__(self, x):
    return SetupClash(kind=self.kind)(x)


@with_rng_stub
def setup_name_clashes(kind, nested, x):
  """submodules defined in setup() that resolve to the same name raise instead of
  silently sharing one variable subtree (any nesting depth)"""
  kind = pick([0, 1, 2, 3], kind)
  mod = Nest(kind=kind) if nested else SetupClash(kind=kind)
  try:
    y, vs = mod.init_with_output(_KEY, x)
  except errors.NameInUseError:
    return kind != 3
  if kind != 3:
    return False
  vs = plain(vs)
  inner = vs['params']['SetupClash_0'] if nested else vs['params']
  return inner == {'a': {'w': 3}, 'b': {'w': 4}} and y == (x * 3 + 1) * 4 + 1


class Scale(nn.Module):
  @nn.compact
  def __call__(self, x):
    s = self.param('scale', lambda rng, shape: np.ones(shape), x.shape[-1:])
    return x * s


class SharedScale(nn.Module):
  setup_style: bool = False

  def setup(self):
    if self.setup_style:
      self.sc = Scale()

  @nn.compact
  def __call__(self, a, b):
    sc = self.sc if self.setup_style else Scale(name='sc')
    return sc(a).sum() + sc(b).sum()


def shape_check_everywhere(wa, wb, setup_style, mutable_params):
  """a parameter whose stored shape differs from what its initializer asks for
  raises ScopeParamShapeError -- also while the params collection is mutable (init,
  apply(mutable=['params'])) -- instead of being silently accepted"""
  wa, wb = pick([1, 2, 4], wa), pick([1, 2, 4], wb)
  a, b = np.ones((2, wa)), np.ones((2, wb))
  mod = SharedScale(setup_style=bool(setup_style))
  try:
    vs = mod.init(_KEY, a, b)
    ok_init = True
  except errors.ScopeParamShapeError:
    ok_init = False
  if ok_init != (wa == wb):
    return False
  # a stored parameter of the wrong shape
  good = plain(mod.init(_KEY, a, a))
  bad = {'params': {'sc': {'scale': np.ones((wa + 1,))}}}
  for variables, want_ok in ((good, True), (bad, False)):
    try:
      if mutable_params:
        mod.apply(variables, a, a, mutable=['params'])
      else:
        mod.apply(variables, a, a)
      ok = True
    except errors.ScopeParamShapeError:
      ok = False
    if ok != want_ok:
      return False
  return True


EXPLANATION = (
    'C02: compact parents with <=2 Leaf children whose names are drawn from a pool '
    'containing the automatic names the program itself generates, an own param / '
    'stats variable whose name may collide, child reuse, symbolic input and '
    'parameter values; init vs apply vs submodule-on-subtree vs a reference tree; '
    'damaged trees raise; setup style and bind/unbind.')
ASSUMPTIONS = (
    'lazy_init / eval_shape / jit(init) agreement needs JAX abstract evaluation of '
    'real arrays: NOT covered (no solver variable can enter it)',
    'leaf values are Python ints; nesting depth 2',
    'flax.core.scope.random.fold_in is stubbed to return its key (key values are '
    'decided under C09)',
    'jax.core.get_opaque_trace_state compat shim installed by the harness process',
)


def obligations(tier):
  quick = tier == 'quick'
  F = qualnames(nn.Module.init_with_output, nn.Module.apply, nn.Module.param,
                nn.Module.variable, nn.Module.bind, nn.Module.unbind,
                nn.Module.__post_init__, S.Scope.reserve, S.Scope.default_name,
                S.Scope.push, S.Scope.param)
  quick = tier == 'quick'
  npool = I(0, len(NAME_POOL) - 1)
  return [
      Ob('tree_mirrors_modules', tree_mirrors_modules,
         dict(nk=I(0, 2), n0=npool, n1=npool,
              own=I(0, 3 if quick else len(OWN_POOL) - 1), own_first=B(),
              reuse=I(0, 0) if quick else B(),
              vn=I(0, 1 if quick else 3), x=I(-3, 3), w_new=I(-3, 3),
              var_first=B()),
         split=('nk', 'n0', 'n1', 'own'), timeout=900, funcs=F,
         per_path_timeout=60.0,
         bounds='<=2 children, names from %r, own param from %r, stats variable '
                'from [None,v,Leaf_0,w], own param before/after children, child '
                'reuse' % (NAME_POOL, OWN_POOL)),
      Ob('damaged_tree_raises', damaged_tree,
         dict(kind=I(0, 5), which=I(0, 1), x=I(-3, 3)), split=('kind',),
         timeout=600, funcs=F, per_path_timeout=60.0),
      Ob('setup_style_bind_unbind', setup_style, dict(x=I(-3, 3), w=I(-3, 3)),
         timeout=600, funcs=F, per_path_timeout=60.0),
      Ob('shared_between_parents', shared_between_parents,
         dict(x=I(-3, 3), w=I(-3, 3)), timeout=600, funcs=F, per_path_timeout=60.0),
      Ob('setup_name_clashes', setup_name_clashes,
         dict(kind=I(0, 3), nested=B(), x=I(-3, 3)), split=('kind',), timeout=300,
         funcs=F, per_path_timeout=60.0,
         bounds='setup(): the same explicit name twice, a list attribute vs. the '
                'attribute name it generates (both orders), a clash-free control; at '
                'the root or inside a compact parent'),
      Ob('shape_check_everywhere', shape_check_everywhere,
         dict(wa=I(0, 2), wb=I(0, 2), setup_style=B(), mutable_params=B()),
         split=('wa',), timeout=300, funcs=F, per_path_timeout=60.0,
         bounds='a shared sub-module whose param shape follows its input, called on '
                'widths from {1,2,4}; stored params of the wrong shape; params '
                'mutable or not'),
      Ob('declaration_sequences', declaration_sequences,
         dict(k0=I(0, 3), n0=I(0, 1), k1=I(0, 3), n1=I(0, 1), k2=I(0, 3), n2=I(0, 1),
              x=I(-3, 3)), split=('k0', 'k1'), timeout=600, funcs=F,
         per_path_timeout=60.0,
         bounds='3 declarations, kinds %r, names %r' % (DECL_KINDS, DECL_NAMES)),
      Ob('bind_adopts_bound_submodule', bind_adopts_bound_submodule,
         dict(x=I(-3, 3), w1=I(-3, 3), w2=I(-3, 3), keep=B()), timeout=600, funcs=F,
         per_path_timeout=60.0),
  ]
