"""Obligation descriptions shared by harness modules and the runner."""
import itertools


class Ob:
  """One proof obligation.

  kind 'xh'  : fn(**args)->bool explored by CrossHair over `domains`; the args named
               in `split` are enumerated concretely (one job per value combination,
               the union of jobs is the whole domain by construction).
  kind 'smt' : fn(**fixed) builds and discharges z3 queries itself and returns
               dict(status='unsat'|'sat'|'unknown', queries=n, solver_s=..,
                    cex=<plain args for `replay`> , detail=..).
  replay     : optional fn(**cex_args)->bool (True = property holds) run untraced on
               the real code; default for 'xh' is fn itself.
  expect     : 'hold' (default) or 'refute' (reachability twins / canaries: the
               obligation must be refuted and the counterexample must replay).
  """

  def __init__(self, name, fn, domains=None, split=(), timeout=60, kind='xh',
               replay=None, expect='hold', funcs=(), bounds='', assumes=(),
               per_path_timeout=30.0, hunt=False):
    self.name = name
    self.fn = fn
    self.domains = dict(domains or {})
    self.split = tuple(split)
    self.timeout = timeout
    self.kind = kind
    self.replay = replay
    self.expect = expect
    self.funcs = tuple(funcs)
    self.bounds = bounds
    self.assumes = tuple(assumes)
    self.per_path_timeout = per_path_timeout
    self.hunt = hunt  # bug-hunting condition: non-exhaustion is expected

  def jobs(self):
    if not self.split:
      return [{}]
    vals = [list(self.domains[n].values()) for n in self.split]
    return [dict(zip(self.split, c)) for c in itertools.product(*vals)]
