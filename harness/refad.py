"""Reference automatic differentiation on (symbolic) ints, used as the contract stub
of jax.vjp / jax.jvp / jax.custom_vjp where flax's routing around them is the
subject (C07).  Forward mode with dual numbers (exact for the +, -, * programs the
harness bodies use); reverse mode = one forward pass per input element."""
import jax

from harness.arr import Arr


class Dual:
  def __init__(self, val, dot):
    self.val, self.dot = val, dot

  @staticmethod
  def lift(x):
    return x if isinstance(x, Dual) else Dual(x, 0)

  def __add__(self, o):
    o = Dual.lift(o)
    return Dual(self.val + o.val, self.dot + o.dot)
  __radd__ = __add__

  def __sub__(self, o):
    o = Dual.lift(o)
    return Dual(self.val - o.val, self.dot - o.dot)

  def __rsub__(self, o):
    return Dual.lift(o) - self

  def __mul__(self, o):
    o = Dual.lift(o)
    return Dual(self.val * o.val, self.val * o.dot + self.dot * o.val)
  __rmul__ = __mul__

  def __neg__(self):
    return Dual(-self.val, -self.dot)


def _is_leaf(x):
  return isinstance(x, (Arr, Dual)) or type(x).__name__ == 'RVar'


def flatten(tree):
  return jax.tree_util.tree_flatten(tree, is_leaf=_is_leaf)


def _elems(leaf):
  return list(leaf.data) if isinstance(leaf, Arr) else [leaf]


def _rebuild(leaf, vals):
  return Arr(vals, leaf.shape) if isinstance(leaf, Arr) else vals[0]


def primal_of(tree):
  leaves, td = flatten(tree)
  return td.unflatten([_rebuild(l, [e.val if isinstance(e, Dual) else e
                                    for e in _elems(l)]) for l in leaves])


def tangent_of(tree):
  leaves, td = flatten(tree)
  return td.unflatten([_rebuild(l, [e.dot if isinstance(e, Dual) else 0
                                    for e in _elems(l)]) for l in leaves])


def make_dual(primals, tangents):
  pl, td = flatten(primals)
  tl, _ = flatten(tangents)
  assert len(pl) == len(tl), 'tangent structure differs from primal structure'
  out = []
  for p, t in zip(pl, tl):
    out.append(_rebuild(p, [Dual(a, b) for a, b in zip(_elems(p), _elems(t))]))
  return td.unflatten(out)


def zeros_like(tree):
  leaves, td = flatten(tree)
  return td.unflatten([_rebuild(l, [0] * len(_elems(l))) for l in leaves])


def ones_like(tree):
  leaves, td = flatten(tree)
  return td.unflatten([_rebuild(l, [1] * len(_elems(l))) for l in leaves])


def ref_jvp(f, primals, tangents, has_aux=False):
  out = f(*make_dual(tuple(primals), tuple(tangents)))
  if has_aux:
    out, aux = out
    return primal_of(out), tangent_of(out), primal_of(aux)
  return primal_of(out), tangent_of(out)


def _dot(ct, tan):
  cl, _ = flatten(ct)
  tl, _ = flatten(tan)
  assert len(cl) == len(tl), 'cotangent structure differs from output structure'
  s = 0
  for c, t in zip(cl, tl):
    for a, b in zip(_elems(c), _elems(t)):
      s = s + a * b
  return s


class RVar:
  """reverse-mode tape node: value + [(parent, local derivative)]"""

  def __init__(self, val, parents=()):
    self.val, self.parents = val, tuple(parents)

  @staticmethod
  def lift(x):
    return x if isinstance(x, RVar) else RVar(x)

  def __add__(self, o):
    o = RVar.lift(o)
    return RVar(self.val + o.val, ((self, 1), (o, 1)))
  __radd__ = __add__

  def __sub__(self, o):
    o = RVar.lift(o)
    return RVar(self.val - o.val, ((self, 1), (o, -1)))

  def __rsub__(self, o):
    return RVar.lift(o) - self

  def __mul__(self, o):
    o = RVar.lift(o)
    return RVar(self.val * o.val, ((self, o.val), (o, self.val)))
  __rmul__ = __mul__

  def __neg__(self):
    return RVar(-self.val, ((self, -1),))


def _strip(tree):
  leaves, td = flatten(tree)
  return td.unflatten([_rebuild(l, [e.val if isinstance(e, (RVar, Dual)) else e
                                    for e in _elems(l)]) for l in leaves])


def ref_vjp(f, *primals, has_aux=False, reduce_axes=()):
  """(y, bwd[, aux]); bwd(ct) -> one cotangent per primal argument.  ONE call of f
  (as under jax tracing): inputs become tape nodes, bwd back-propagates."""
  pl, td = flatten(tuple(primals))
  nodes = [[RVar(e) for e in _elems(l)] for l in pl]
  res = f(*td.unflatten([_rebuild(l, ns) for l, ns in zip(pl, nodes)]))
  if has_aux:
    y, aux = res
  else:
    y, aux = res, None
  yl, _ = flatten(y)

  def bwd(ct):
    cl, _ = flatten(ct)
    assert len(cl) == len(yl), 'cotangent structure differs from output structure'
    grad = {}
    order, seen = [], set()

    def topo(n):
      if id(n) in seen:
        return
      seen.add(id(n))
      for p, _ in n.parents:
        topo(p)
      order.append(n)
    outs = []
    for c, yv in zip(cl, yl):
      for a, b in zip(_elems(c), _elems(yv)):
        if isinstance(b, RVar):
          topo(b)
          grad[id(b)] = grad.get(id(b), 0) + a
    for n in reversed(order):
      g = grad.get(id(n), 0)
      for p, w in n.parents:
        grad[id(p)] = grad.get(id(p), 0) + g * w
    return td.unflatten([_rebuild(l, [grad.get(id(nd), 0) for nd in ns])
                         for l, ns in zip(pl, nodes)])
  if has_aux:
    return _strip(y), bwd, _strip(aux)
  return _strip(y), bwd


class ref_custom_vjp:
  """jax.custom_vjp: the forward value is that of the original function; when the
  call is being differentiated (dual inputs) the derivative comes from the user's
  fwd / bwd rules"""

  def __init__(self, fun, nondiff_argnums=()):
    self.fun, self.nondiff = fun, tuple(nondiff_argnums)
    self.fwd = self.bwd = None

  def defvjp(self, fwd, bwd):
    self.fwd, self.bwd = fwd, bwd

  def __call__(self, *args):
    leaves, _ = flatten(args)
    if any(isinstance(e, RVar) for l in leaves for e in _elems(l)):
      return self._call_tape(args)
    differentiating = any(isinstance(e, Dual) for l in leaves for e in _elems(l))
    if not differentiating:
      return self.fun(*args)
    pargs = primal_of(args)
    targs = tangent_of(args)
    y, res = self.fwd(*pargs)
    yl, ytd = flatten(y)
    nond = [pargs[i] for i in self.nondiff]
    diff_idx = [i for i in range(len(args)) if i not in self.nondiff]
    out = []
    for li, leaf in enumerate(yl):
      vals = []
      for ei, v in enumerate(_elems(leaf)):
        onehot = ytd.unflatten([_rebuild(l, [1 if (lj == li and ej == ei) else 0
                                             for ej in range(len(_elems(l)))])
                                for lj, l in enumerate(yl)])
        cts = self.bwd(*nond, res, onehot)
        dot = 0
        for k, i in enumerate(diff_idx):
          dot = dot + _dot(cts[k], targs[i])
        vals.append(Dual(v, dot))
      out.append(_rebuild(leaf, vals))
    return ytd.unflatten(out)

  def _call_tape(self, args):
    """reverse mode: outputs are tape nodes whose parents are the input nodes,
    weighted by the user's backward rule applied to one-hot cotangents"""
    pargs = _strip(args)
    y, res = self.fwd(*pargs)
    yl, ytd = flatten(y)
    nond = [pargs[i] for i in self.nondiff]
    diff_idx = [i for i in range(len(args)) if i not in self.nondiff]
    out = []
    for li, leaf in enumerate(yl):
      vals = []
      for ei, v in enumerate(_elems(leaf)):
        onehot = ytd.unflatten([_rebuild(l, [1 if (lj == li and ej == ei) else 0
                                             for ej in range(len(_elems(l)))])
                                for lj, l in enumerate(yl)])
        cts = self.bwd(*nond, res, onehot)
        parents = []
        for k, i in enumerate(diff_idx):
          al, _ = flatten(args[i])
          gl, _ = flatten(cts[k])
          assert len(al) == len(gl), 'backward rule structure differs from inputs'
          for a, g in zip(al, gl):
            for ae, ge in zip(_elems(a), _elems(g)):
              if isinstance(ae, RVar):
                parents.append((ae, ge))
        vals.append(RVar(v, parents))
      out.append(_rebuild(leaf, vals))
    return ytd.unflatten(out)
