"""C13 (slices) -- attention weights / masks, one step of every RNN cell,
sequence flipping and last-carry selection with symbolic lengths (Engine C)."""
import itertools
import time

import jax
import numpy as np
import z3

import flax.linen as nn
from flax import nnx
from flax.linen import attention as LA, recurrent as LR, dtypes as LD
from flax.linen import linear as LL
from flax.nnx.nn import attention as NA, recurrent as NR, linear as NL
from flax.nnx.nn import dtypes as ND

from harness.common import qualnames
from harness.c12 import SymEnv as _BaseEnv, _JaxProxy, _Random, idxs, _prove, be, R
import harness.c12 as C12
from vf.ob import Ob
from vf import sym, symnp
from vf.sym import A, S, _num
from vf.xh import I

MODS = [LA, LR, LD, LL, NA, NR, NL, ND]


class SymEnv(_BaseEnv):
  def __enter__(self):
    self.saved = []
    if sym.CONCRETE['on']:
      return _BaseEnv.__enter__(self)
    for m in MODS:
      for name, repl in (('jnp', symnp.JNP), ('lax', symnp.LAX),
                         ('jax', _JaxProxy()), ('random', _Random())):
        if hasattr(m, name):
          self.saved.append((m, name, getattr(m, name)))
          setattr(m, name, repl)
    _Random.masks = []
    sym.SQRT_AXIOMS.clear()
    return self


def _b(x):
  t = x.t
  return t if z3.is_bool(t) else _num(t) != 0


def masks(which):
  t0 = time.time()
  cases = []
  with SymEnv():
    q = A.sym('qm', (2, 3), 'bool')
    k = A.sym('km', (2, 4), 'bool')
    qn = A([S(z3.If(v.t, z3.IntVal(1), z3.IntVal(0))) for v in q.data], q.shape)
    kn = A([S(z3.If(v.t, z3.IntVal(1), z3.IntVal(0))) for v in k.data], k.shape)
    m = LA.make_attention_mask(R(qn), R(kn), pairwise_fn=be('multiply'))
    want = []
    for b, i, j in idxs((2, 3, 4)):
      want.append(S(z3.And(q.at((b, i)).t, k.at((b, j)).t)))
    cases.append(('make_attention_mask', _truth(m), A(want, (2, 1, 3, 4))))
    x = A.sym('tok', (2, 4))
    cm = LA.make_causal_mask(R(x))
    wc = [S(z3.BoolVal(i >= j)) for b, i, j in idxs((2, 4, 4))]
    cases.append(('make_causal_mask', _truth(cm), A(wc, (2, 1, 4, 4))))
    m1 = A.sym('m1', (1, 1, 2, 3), 'bool')
    m2 = A.sym('m2', (1, 1, 2, 3), 'bool')
    cmb = LA.combine_masks(R(m1), None, R(m2))
    wcm = [S(z3.And(a.t, b.t)) for a, b in zip(m1.data, m2.data)]
    cases.append(('combine_masks', _truth(cmb), A(wcm, (1, 1, 2, 3))))
    if LA.combine_masks(None, None) is not None:
      return dict(status='sat', cex=dict(case='combine_masks(None)'),
                  detail='no masks must give None')
    cases.append(('nnx.make_attention_mask', _truth(NA.make_attention_mask(
        R(qn), R(kn), pairwise_fn=be('multiply'))),
                  A(want, (2, 1, 3, 4))))
    cases.append(('nnx.make_causal_mask', _truth(NA.make_causal_mask(R(x))),
                  A(wc, (2, 1, 4, 4))))
    cases.append(('nnx.combine_masks', _truth(NA.combine_masks(R(m1), R(m2))),
                  A(wcm, (1, 1, 2, 3))))
  return _prove(cases, t0)


def _truth(a):
  a = A.of(a)
  return A([S(_b(v)) for v in a.data], a.shape)


def attention(which):
  """weights = softmax over keys of (q.k/sqrt(d) + bias), masked logits replaced by
  the fill value; output = weights . v; Linen == NNX"""
  t0 = time.time()
  cases = []
  with SymEnv():
    # which 1: depth 4 (sqrt(depth) rational: the whole query is linear arithmetic
    # under the uninterpreted exp, so a wrong scaling order has an easy model)
    Lq, Lk, H, D = ((2, 3, 1, 2), (1, 2, 1, 4), (2, 2, 2, 1))[which]
    for use_bias, use_mask in itertools.product((False, True), (False, True)):
      q = A.sym('q', (Lq, H, D))
      k = A.sym('k', (Lk, H, D))
      v = A.sym('v', (Lk, H, D))
      bias = A.sym('bias', (H, Lq, Lk)) if use_bias else None
      mask = A.sym('mask', (H, Lq, Lk), 'bool') if use_mask else None
      w = LA.dot_product_attention_weights(R(q), R(k), bias=R(bias), mask=R(mask),
                                           deterministic=True)
      fill = (S(float(np.finfo(np.float32).min)) if sym.CONCRETE['on'] else
              symnp.JNP.finfo(None).min)
      rs = symnp.JNP.sqrt(A.of(D))
      rs = rs if isinstance(rs, S) else rs.data[0]
      logits = {}
      for h, i, j in idxs((H, Lq, Lk)):
        acc = S(0)
        for d in range(D):
          acc = acc + (q.at((i, h, d)) / rs) * k.at((j, h, d))
        if use_bias:
          acc = acc + bias.at((h, i, j))
        if use_mask:
          acc = S(z3.If(mask.at((h, i, j)).t, _num(acc.t), _num(fill.t)))
        logits[(h, i, j)] = acc
      want = []
      for h, i, j in idxs((H, Lq, Lk)):
        den = S(0)
        for jj in range(Lk):
          den = den + sym.uf('exp', logits[(h, i, jj)])
        want.append(sym.uf('exp', logits[(h, i, j)]) / den)
      want = A(want, (H, Lq, Lk))
      tag = 'bias=%s mask=%s' % (use_bias, use_mask)
      cases.append(('attention weights ' + tag, w, want))
      out = LA.dot_product_attention(R(q), R(k), R(v), bias=R(bias), mask=R(mask),
                                     deterministic=True)
      wo = []
      for i, h, d in idxs((Lq, H, D)):
        acc = S(0)
        for j in range(Lk):
          acc = acc + want.at((h, i, j)) * v.at((j, h, d))
        wo.append(acc)
      cases.append(('attention output ' + tag, out, A(wo, (Lq, H, D))))
      wn = NA.dot_product_attention_weights(R(q), R(k), bias=R(bias), mask=R(mask),
                                            deterministic=True)
      cases.append(('nnx attention weights ' + tag, wn, w))
      # (dropout_rate > 0 with deterministic=True selects flax's own path; with
      # rate 0 nnx defers to jax.nn.dot_product_attention, which is JAX code)
      on = NA.dot_product_attention(R(q), R(k), R(v), bias=R(bias), mask=R(mask),
                                    dropout_rate=0.5, deterministic=True)
      cases.append(('nnx attention output ' + tag, on, out))
  return _prove(cases, t0)


def decode_cache(which):
  """MultiHeadDotProductAttention(decode=True) fed one position at a time returns, at
  every step, what the same module returns for that position on the whole sequence
  under a causal mask; the cache index advances by one and the cached keys are the
  whole-sequence keys of the positions seen so far"""
  t0 = time.time()
  cases = []
  H, F, Lx = ((1, 2, 3), (2, 2, 2))[which]
  D = F // H
  with SymEnv():
    x = A.sym('x', (1, Lx, F))
    p = {}
    for nm in ('query', 'key', 'value'):
      p[nm] = {'kernel': A.sym(nm[0] + 'k', (F, H, D)), 'bias': A.sym(nm[0] + 'b',
                                                                      (H, D))}
    p['out'] = {'kernel': A.sym('ok', (H, D, F)), 'bias': A.sym('ob', (F,))}
    kw = dict(num_heads=H, qkv_features=F, out_features=F, deterministic=True)
    full = nn.MultiHeadDotProductAttention(**kw)
    causal = LA.make_causal_mask(symnp.JNP.ones((1, Lx)))
    y_full = A.of(full.apply({'params': p}, R(x), mask=causal))
    dec = nn.MultiHeadDotProductAttention(decode=True, **kw)
    cache = {'cached_key': symnp.JNP.zeros((1, Lx, H, D)),
             'cached_value': symnp.JNP.zeros((1, Lx, H, D)),
             'cache_index': symnp.JNP.array(0, dtype='int32')}
    if sym.CONCRETE['on']:
      import jax.numpy as jnp
      cache = {'cached_key': jnp.zeros((1, Lx, H, D)),
               'cached_value': jnp.zeros((1, Lx, H, D)),
               'cache_index': jnp.array(0, dtype=jnp.int32)}
    for t in range(Lx):
      xt = A([x.at((0, t, f)) for f in range(F)], (1, 1, F))
      yt, upd = dec.apply({'params': p, 'cache': cache}, R(xt), mutable=['cache'])
      cache = upd['cache']
      yt = A.of(yt)
      cases.append(('decode step %d == whole sequence' % t, yt, A(
          [y_full.at((0, t, f)) for f in range(F)], (1, 1, F))))
      ci = A.of(cache['cache_index'])
      cases.append(('cache index after step %d' % t, ci, A([S(t + 1)], ())))
    # NNX: the same parameters, init_cache + one position per call
    nm_ = nnx.MultiHeadAttention(num_heads=H, in_features=F, qkv_features=F,
                                 out_features=F, decode=False, dropout_rate=0.5,
                                 deterministic=True, rngs=nnx.Rngs(0))
    # (dropout_rate > 0 with deterministic=True selects flax's own attention path;
    # with rate 0 nnx defers to jax.nn.dot_product_attention, which is JAX code)
    for nm in ('query', 'key', 'value', 'out'):
      getattr(nm_, nm).kernel.value = R(p[nm]['kernel'])
      getattr(nm_, nm).bias.value = R(p[nm]['bias'])
    n_full = A.of(nm_(R(x), mask=R(causal) if not sym.CONCRETE['on'] else
                      NA.make_causal_mask(np.ones((1, Lx))), decode=False))
    cases.append(('nnx whole sequence == linen', n_full, y_full))
    nm_.init_cache((1, Lx, F))
    for t in range(Lx):
      xt = A([x.at((0, t, f)) for f in range(F)], (1, 1, F))
      yt = A.of(nm_(R(xt), decode=True))
      cases.append(('nnx decode step %d == whole sequence' % t, yt, A(
          [y_full.at((0, t, f)) for f in range(F)], (1, 1, F))))
    cases.append(('nnx cache index', A.of(nm_.cache_index.value), A([S(Lx)], ())))
  # float saturation: exp(finfo.min) underflows to exactly 0, which is what makes
  # masked positions inert in floats (in the reals it would only be tiny)
  fill = symnp.JNP.finfo(None).min
  extra = []
  if not sym.CONCRETE['on']:
    extra = [sym.uf('exp', fill).t == 0]
    # ... and exp of anything else is positive (instantiated at every application)
    seen, apps = set(), []

    def walk(t):
      if t.get_id() in seen:
        return
      seen.add(t.get_id())
      if z3.is_app(t):
        if t.decl().name() == 'exp' and not z3.eq(t.arg(0), _num(fill.t)):
          apps.append(t)
        for c in t.children():
          walk(c)
    for _, got, want in cases:
      for arr in (A.of(got), A.of(want)):
        for e in arr.data:
          walk(z3.simplify(_num(e.t)) if not z3.is_bool(e.t) else e.t)
    extra += [a_ > 0 for a_ in apps]
  return _prove(cases, t0, extra)


def _param_tree(cell, carry_shape, x_shape):
  """real init (concrete, outside the shim) gives the parameter structure; every
  leaf is then replaced by a symbolic array of the same shape"""
  x = np.zeros(x_shape, np.float32)
  carry = cell.initialize_carry(jax.random.key(0), x_shape)
  vs = cell.init(jax.random.key(1), carry, x)
  cnt = [0]

  def mk(leaf):
    cnt[0] += 1
    return A.sym('p%d' % cnt[0], tuple(leaf.shape))
  return jax.tree_util.tree_map(mk, vs)


def _dense(p, x, bias=True):
  out = C12.ref_contract(x, p['kernel'], p.get('bias') if bias else None, 1)
  return out


def cells(which):
  t0 = time.time()
  cases = []
  F, Din = 2, 3
  sg, th = be('sigmoid'), be('tanh')
  rsg, rth = symnp.NN.sigmoid, symnp.NN.tanh      # reference side
  kw = dict(gate_fn=sg, activation_fn=th)
  x_shape = (1, Din)
  if which == 0:
    cell = nn.LSTMCell(F, **kw)
    params = _param_tree(nn.LSTMCell(F), None, x_shape)
  elif which == 1:
    cell = nn.GRUCell(F, **kw)
    params = _param_tree(nn.GRUCell(F), None, x_shape)
  elif which == 2:
    cell = nn.SimpleCell(F, activation_fn=th)
    params = _param_tree(nn.SimpleCell(F), None, x_shape)
  elif which == 3:
    cell = nn.MGUCell(F, **kw)
    params = _param_tree(nn.MGUCell(F), None, x_shape)
  else:
    cell = nn.OptimizedLSTMCell(F, **kw)
    params = _param_tree(nn.OptimizedLSTMCell(F), None, x_shape)
  with SymEnv():
    x = A.sym('x', x_shape)
    h = A.sym('h', (1, F))
    c = A.sym('c', (1, F))
    p = params['params']
    if which in (0, 4):
      (nc, nh), out = cell.apply(params, (c, h), x)
      gate = lambda a, b: _dense(p['i' + a], x, False) + _dense(p['h' + a], h)
      i, f, g, o = rsg(gate('i', 'i')), rsg(gate('f', 'f')), rth(gate('g', 'g')), rsg(
          gate('o', 'o'))
      wc = f * c + i * g
      wh = o * rth(wc)
      cases += [('LSTM new_c', nc, wc), ('LSTM new_h', nh, wh), ('LSTM out', out, wh)]
      if which == 0:
        # NNX LSTMCell on the same parameters
        ncell = nnx.LSTMCell(Din, F, rngs=nnx.Rngs(0), gate_fn=sg, activation_fn=th)
        for nm in ('ii', 'if', 'ig', 'io', 'hi', 'hf', 'hg', 'ho'):
          lin = getattr(ncell, 'if_' if nm == 'if' else nm)
          lin.kernel.value = R(p[nm]['kernel'])
          if 'bias' in p[nm]:
            lin.bias.value = R(p[nm]['bias'])
          lin.dot_general = be('dot_general')
        (nnc, nnh), nout = ncell(R((c, h)), R(x))
        cases += [('nnx.LSTM new_c', nnc, nc), ('nnx.LSTM new_h', nnh, nh)]
    elif which == 1:
      nh, out = cell.apply(params, h, x)
      r = rsg(_dense(p['ir'], x) + _dense(p['hr'], h, False))
      z = rsg(_dense(p['iz'], x) + _dense(p['hz'], h, False))
      n = rth(_dense(p['in'], x) + r * _dense(p['hn'], h))
      wh = (1 - z) * n + z * h
      cases += [('GRU new_h', nh, wh), ('GRU out', out, wh)]
    elif which == 2:
      nh, out = cell.apply(params, h, x)
      wh = rth(_dense(p['i'], x) + _dense(p['h'], h, 'bias' in p['h']))
      cases += [('SimpleCell new_h', nh, wh), ('SimpleCell out', out, wh)]
    else:
      nh, out = cell.apply(params, h, x)
      f = rsg(_dense(p['if'], x) + _dense(p['hf'], h, 'bias' in p['hf']))
      n = rth(_dense(p['in'], x) + f * _dense(p['hn'], h, 'bias' in p['hn']))
      wh = (1 - f) * n + f * h
      cases += [('MGU new_h', nh, wh), ('MGU out', out, wh)]
  return _prove(cases, t0)


def sequences(which):
  """flip_sequences / _select_last_carry for SYMBOLIC per-row lengths in [1, T]"""
  t0 = time.time()
  cases = []
  T, Bn, Fd = 4, 2, 2
  with SymEnv():
    L = A.sym('len', (Bn,), 'int')
    extra = [z3.And(v.t >= 1, v.t <= T) for v in L.data]
    for time_major in (False, True):
      shape = (T, Bn, Fd) if time_major else (Bn, T, Fd)
      x = A.sym('x', shape)
      got = A.of(LR.flip_sequences(R(x), R(L), num_batch_dims=1,
                                   time_major=time_major))
      # a second input that agrees with x on the padding (t >= len) only
      x2 = A.sym('xx', shape)
      for idx in idxs(shape):
        t, b = (idx[0], idx[1]) if time_major else (idx[1], idx[0])
        extra.append(z3.Implies(L.at((b,)).t <= t, x2.at(idx).t == x.at(idx).t))
        if sym.CONCRETE['on'] and sym.to_float(L.at((b,)).t) <= t:
          flat = 0
          for i_, s_ in zip(idx, shape):
            flat = flat * s_ + i_
          x2.data[flat] = x.at(idx)       # replay: enforce the assumption
      got2 = A.of(LR.flip_sequences(R(x2), R(L), num_batch_dims=1,
                                    time_major=time_major))
      valid_got, valid_want, pad_got, pad_got2 = [], [], [], []
      for idx in idxs(shape):
        t, b = (idx[0], idx[1]) if time_major else (idx[1], idx[0])
        f = idx[2]
        # flipped[t] = x[len-1-t] for t < len
        val = None
        for ln in range(1, T + 1):
          src_t = ln - 1 - t if t < ln else t
          src = (src_t, b, f) if time_major else (b, src_t, f)
          v = _num(x.at(src).t)
          val = v if val is None else z3.If(L.at((b,)).t == ln, v, val)
        inside = L.at((b,)).t > t
        zero = z3.RealVal(0)
        valid_got.append(S(z3.If(inside, _num(got.at(idx).t), zero)))
        valid_want.append(S(z3.If(inside, val, zero)))
        # beyond the valid length the result may only depend on padding
        pad_got.append(S(z3.If(inside, zero, _num(got.at(idx).t))))
        pad_got2.append(S(z3.If(inside, zero, _num(got2.at(idx).t))))
      cases.append(('flip_sequences valid part time_major=%s' % time_major,
                    A(valid_got, shape), A(valid_want, shape)))
      cases.append(('flip_sequences padding depends on padding only time_major=%s'
                    % time_major, A(pad_got, shape), A(pad_got2, shape)))
      cases.append(('flip_sequences no lengths time_major=%s' % time_major,
                    LR.flip_sequences(R(x), None, 1, time_major),
                    x[::-1] if time_major else x[:, ::-1]))
    seq = A.sym('carry', (T, Bn, Fd))           # time-major stacked carries
    last = LR._select_last_carry(R(seq), R(L))
    wl = []
    for b, f in idxs((Bn, Fd)):
      val = None
      for ln in range(1, T + 1):
        v = _num(seq.at((ln - 1, b, f)).t)
        val = v if val is None else z3.If(L.at((b,)).t == ln, v, val)
      wl.append(S(val))
    cases.append(('_select_last_carry', last, A(wl, (Bn, Fd))))
  return _prove(cases, t0, extra)


def _fam(name):
  def run(**kw):
    (arg,) = kw.values()
    r = globals()[name](arg)
    if r.get('cex') is not None:
      r['cex'] = dict(r['cex'], family=name, arg=arg)
    return r
  run.__name__ = name
  run.__qualname__ = name
  return run


def replay_family(case=None, family=None, arg=None, model=None, **kw):
  """see harness.c12.replay_family: real jax numeric stack on the model's values"""
  fn = globals()[family]
  try:
    for seed in range(4):
      sym.set_concrete(True, model if seed == 0 else None, seed)
      r = fn(arg)
      if r.get('status') != 'unsat':
        return False
    return True
  finally:
    sym.set_concrete(False)


def control_wrong_formula(which):
  """negative control: a deliberately wrong reference must be refuted"""
  x, k = A.sym('x', (2, 3)), A.sym('k', (3, 2))
  with SymEnv():
    got = nn.Dense(2, use_bias=False).apply({'params': {'kernel': k}}, x)
  st, model, nq = sym.prove_equal([(got, C12.ref_contract(x, k, None, 1) + 1)])
  return dict(status=st, queries=nq, cex=dict(case='control') if st == 'sat' else
              None, detail='control')


def replay_control(case=None, **kw):
  return False


# ------------------------------------------------------------------ RNN wrapper
class AccCell(nn.RNNCellBase):
  """parameter-free cell: carry' = 2*carry + x, output = carry'"""

  @property
  def num_feature_axes(self):
    return 1

  def initialize_carry(self, rng, input_shape):
    if sym.CONCRETE['on']:
      import jax.numpy as jnp
      return jnp.zeros(input_shape)
    return symnp.JNP.zeros(input_shape)

  def __call__(self, carry, x):
    new = carry * 2 + x
    return new, new


class _ScanStub:
  """flax.linen.transforms.scan replaced by its documented meaning: a Python loop
  over `in_axes`, outputs stacked along `out_axes`"""

  @staticmethod
  def scan(fn, in_axes=0, out_axes=0, **kw):
    def take(x, t):
      key = [slice(None)] * x.ndim
      key[in_axes] = t
      return x[tuple(key)]

    def stack(xs, axis):
      if isinstance(xs[0], A):
        return symnp.JNP.stack(xs, axis)
      import jax.numpy as jnp
      return jnp.stack(xs, axis)

    def run(cell, carry, inputs):
      T = inputs.shape[in_axes]
      ys = []
      for t in range(T):
        carry, y = fn(cell, carry, take(inputs, t))
        ys.append(y)
      if isinstance(out_axes, tuple):
        outs = tuple(stack([y[i] for y in ys], ax) for i, ax in enumerate(out_axes))
      else:
        outs = stack(ys, out_axes)
      return carry, outs
    return run


def rnn_wrapper(which):
  """nn.RNN over a parameter-free cell, symbolic per-row lengths: outputs at valid
  positions and the returned final carry equal the Python loop over the valid
  prefix (reversed within the valid length when reverse=True, outputs flipped
  back when keep_order=True), for time_major both ways and return_carry given at
  construction or at call time; padding never reaches a valid output / the carry"""
  t0 = time.time()
  cases = []
  T, Bn = 3, 2
  saved = LR.transforms
  LR.transforms = _ScanStub
  try:
    with SymEnv():
      L = A.sym('len', (Bn,), 'int')
      extra = [z3.And(v.t >= 1, v.t <= T) for v in L.data]
      for time_major, reverse, keep_order, rc_ctor in itertools.product(
          (False, True), (False, True), (False, True), (False, True)):
        if keep_order and not reverse:
          continue
        shape = (T, Bn, 1) if time_major else (Bn, T, 1)
        x = A.sym('x', shape)
        xa = lambda b, t: x.at((t, b, 0) if time_major else (b, t, 0))
        rnn = nn.RNN(AccCell(), time_major=time_major, reverse=reverse,
                     keep_order=keep_order, return_carry=rc_ctor)
        if rc_ctor:
          carry, outs = rnn.apply({}, x, seq_lengths=L)
        else:
          carry, outs = rnn.apply({}, x, seq_lengths=L, return_carry=True)
        carry, outs = A.of(carry), A.of(outs)
        want_c, valid_got, valid_want = [], [], []
        for b in range(Bn):
          per_len = {}
          for ln in range(1, T + 1):
            order = list(range(ln - 1, -1, -1)) if reverse else list(range(ln))
            c = S(0)
            ys = {}
            for step, src in enumerate(order):
              c = c * 2 + xa(b, src)
              # position at which this step's output appears
              pos = src if (reverse and keep_order) else step
              ys[pos] = c
            per_len[ln] = (c, ys)
          val = None
          for ln in range(1, T + 1):
            v = _num(per_len[ln][0].t)
            val = v if val is None else z3.If(L.at((b,)).t == ln, v, val)
          want_c.append(S(val))
          for t in range(T):
            idx = (t, b, 0) if time_major else (b, t, 0)
            inside = L.at((b,)).t > t
            wv = None
            for ln in range(t + 1, T + 1):
              v = _num(per_len[ln][1][t].t)
              wv = v if wv is None else z3.If(L.at((b,)).t == ln, v, wv)
            zero = z3.RealVal(0)
            valid_got.append(S(z3.If(inside, _num(outs.at(idx).t), zero)))
            valid_want.append(S(z3.If(inside, wv if wv is not None else zero,
                                      zero)))
        tag = 'time_major=%s reverse=%s keep_order=%s return_carry@%s' % (
            time_major, reverse, keep_order, 'ctor' if rc_ctor else 'call')
        cases.append(('RNN final carry ' + tag, carry, A(want_c, (Bn, 1))))
        cases.append(('RNN valid outputs ' + tag, A(valid_got, (len(valid_got),)),
                      A(valid_want, (len(valid_want),))))
  finally:
    LR.transforms = saved
  return _prove(cases, t0, extra)


EXPLANATION = (
    'C13 slices (Engine C): attention masks as Boolean formulas; '
    'dot_product_attention_weights / dot_product_attention (Linen and NNX) equal '
    'softmax(q.k/sqrt(d)+bias) with masked logits at the fill value, exp '
    'uninterpreted; one step of LSTMCell, OptimizedLSTMCell, GRUCell, SimpleCell, '
    'MGUCell equals the documented recurrence (sigmoid/tanh uninterpreted), NNX '
    'LSTMCell == Linen LSTMCell; flip_sequences and _select_last_carry for '
    'symbolic per-row lengths in [1, T].')
ASSUMPTIONS = (
    'floats as reals; exp / sigmoid / tanh / sqrt uninterpreted',
    'stepwise-decode == whole-sequence, masked-position non-interference through '
    'finfo.min saturation, Bidirectional, nnx.RNN and ConvLSTMCell are NOT '
    'covered; nn.RNN is covered with flax.linen.transforms.scan replaced by a '
    'Python loop (its documented meaning) over a parameter-free cell',
    'jax.core.get_opaque_trace_state compat shim installed by the harness process',
)


def obligations(tier):
  F1 = qualnames(LA.make_attention_mask, LA.make_causal_mask, LA.combine_masks,
                 LA.dot_product_attention_weights, LA.dot_product_attention,
                 NA.dot_product_attention_weights, NA.dot_product_attention)
  F2 = qualnames(nn.LSTMCell.__call__, nn.OptimizedLSTMCell.__call__,
                 nn.GRUCell.__call__, nn.SimpleCell.__call__, nn.MGUCell.__call__,
                 nnx.LSTMCell.__call__)
  F3 = qualnames(LR.flip_sequences, LR._select_last_carry, LR._expand_dims_like)
  obs = [Ob('attention_masks', _fam('masks'), dict(which=I(0, 0)), kind='smt', replay=replay_family,
            split=('which',), timeout=600, funcs=F1),
         Ob('attention_weights_and_output', _fam('attention'), dict(which=I(0, 2)),
            kind='smt', replay=replay_family, split=('which',), timeout=900, funcs=F1,
            bounds='(q len, kv len, heads, depth) in (2,3,1,2), (1,2,1,4), (2,2,2,1); '
                   'bias / mask on/off')]
  obs.append(Ob('decode_cache_equals_whole_sequence', _fam('decode_cache'),
                dict(which=I(0, 1)), kind='smt', replay=replay_family,
                split=('which',), timeout=900, funcs=qualnames(
                    nn.MultiHeadDotProductAttention.__call__,
                    LA.dot_product_attention, LA.make_causal_mask, LA.combine_masks),
                bounds='(heads, features, length) in (1,2,3), (2,2,2); batch 1; '
                       'symbolic inputs and parameters'))
  for w, nm in enumerate(['LSTMCell', 'GRUCell', 'SimpleCell', 'MGUCell',
                          'OptimizedLSTMCell']):
    obs.append(Ob('cell_step_' + nm, _fam('cells'), dict(which=I(w, w)), kind='smt', replay=replay_family,
                  split=('which',), timeout=900, funcs=F2,
                  bounds='batch 1, 3 input features, 2 hidden features'))
  obs.append(Ob('rnn_wrapper_flags_and_lengths', _fam('rnn_wrapper'),
                dict(which=I(0, 0)), kind='smt', replay=replay_family,
                split=('which',), timeout=900,
                funcs=qualnames(nn.RNN.__call__, LR.flip_sequences,
                                LR._select_last_carry),
                bounds='T=3, batch 2, symbolic lengths in [1,3], time_major x '
                       'reverse x keep_order x return_carry at ctor/call; '
                       'transforms.scan replaced by a Python loop'))
  obs.append(Ob('sequence_reindexing', _fam('sequences'), dict(which=I(0, 0)), kind='smt', replay=replay_family,
                split=('which',), timeout=900, funcs=F3,
                bounds='T=4, batch 2, symbolic lengths in [1,4], both time_major'))
  obs.append(Ob('control_wrong_formula_is_refuted', control_wrong_formula,
                dict(which=I(0, 0)), kind='smt', split=('which',), timeout=300,
                expect='refute', replay=replay_control))
  return obs
