"""C01 -- Linen init/apply are pure; explicit mutability contract."""
import jax
import numpy as np
from flax.core import scope as S
from flax.core import FrozenDict, freeze, unfreeze
from flax import errors
import flax.linen as nn

from harness.common import qualnames
from vf.ob import Ob
from vf.xh import I, B, Reject, pick, untraced

COLS = ['params', 'stats', 'cache']
NAMES = ['w', 'k']

# (label, constructor, reference membership)
MUT = [
    ('False', lambda: False, lambda c: False),
    ('True', lambda: True, lambda c: True),
    ("'stats'", lambda: 'stats', lambda c: c == 'stats'),
    ("['stats','cache']", lambda: ['stats', 'cache'], lambda c: c in ('stats', 'cache')),
    ("('cache',)", lambda: ('cache',), lambda c: c == 'cache'),
    ("DenyList('params')", lambda: S.DenyList('params'), lambda c: c != 'params'),
    ("DenyList(['stats','cache'])", lambda: S.DenyList(['stats', 'cache']),
     lambda c: c not in ('stats', 'cache')),
    ("DenyList(True)", lambda: S.DenyList(True), lambda c: False),
    ("DenyList(False)", lambda: S.DenyList(False), lambda c: True),
    ("{'params','stats'}", lambda: {'params', 'stats'}, lambda c: c in ('params', 'stats')),
    ("[]", lambda: [], lambda c: False),
    # a name of which other collection names are proper substrings
    ("'cache_stats'", lambda: 'cache_stats', lambda c: c == 'cache_stats'),
]
NMUT = len(MUT)
NOPS = 8
ARG0 = {'m': 7}          # a dict passed to apply as an argument (op kind 7 stores it)


def mk_vars(a, b, frozen, with_cache):
  v = {'params': {'w': a, 'c': {'w': a + 1}},
       'stats': {'k': b, 'c': {'k': b + 1}}}
  if with_cache == 1:
    v['cache'] = {'k': 3}
  elif with_cache == 2:
    v['cache'] = {}                 # an empty placeholder collection
  return freeze(v) if frozen else v


def snapshot(t):
  """(deep content, ids of every container)"""
  ids = []

  def go(x):
    if isinstance(x, FrozenDict):
      ids.append(id(x))
      x = x._dict            # the underlying storage (items() makes fresh views)
    if isinstance(x, dict):
      ids.append(id(x))
      return {k: go(v) for k, v in x.items()}
    return x
  return go(t), ids


def dict_ids(t, acc):
  if isinstance(t, dict):
    acc.add(id(t))
    for v in t.values():
      dict_ids(v, acc)
  elif isinstance(t, FrozenDict):
    for v in t._dict.values():
      dict_ids(v, acc)
    acc.add(id(t._dict))
  return acc


def num(v):
  return 500 if isinstance(v, (dict, FrozenDict)) else v


def run_program(scope, x, prog, log, argd=None):
  """the program under test: a sequence of scope operations"""
  y = x
  child = None
  for kind, ci, ni, on_child in prog:
    col, name = COLS[ci], NAMES[ni]
    sc = scope
    if on_child:
      if child is None:
        child = scope.push('c')
      sc = child
    try:
      if kind == 0:
        y = y + num(sc.get_variable(col, name, 1000))
      elif kind == 1:
        sc.put_variable(col, name, y + 1)
      elif kind == 2:
        v = sc.variable(col, name, lambda: 10)
        y = y + num(v.value)
      elif kind == 3:
        v = sc.variable(col, name, lambda: 10)
        v.value = num(v.value) + x
      elif kind == 4:
        y = y + (1 if sc.has_variable(col, name) else 0)
      elif kind == 5:
        y = y + (2 if sc.is_mutable_collection(col) else 0)
      elif kind == 6:
        sc.put_variable(col, name, {'n': y})
      elif kind == 7:
        sc.put_variable(col, name, argd if argd is not None else dict(ARG0))
      log.append('ok')
    except errors.ModifyScopeVariableError:
      log.append('ModifyScopeVariableError')
    except errors.ScopeVariableNotFoundError:
      log.append('ScopeVariableNotFoundError')
    except errors.ScopeCollectionNotFound:
      log.append('ScopeCollectionNotFound')
    except ValueError as e:
      if 'Duplicate use of scope name' not in str(e):
        raise
      log.append('Duplicate')
  return y


def ref_program(model, mutable_ref, x, prog):
  """independent reference semantics over a plain nested dict `model`"""
  y = x
  log = []
  reserved = {False: set(), True: set()}

  def coll(col, on_child, create):
    if col not in model:
      if not create:
        return None
      model[col] = {}
    c = model[col]
    if on_child:
      if 'c' not in c:
        if not create:
          return None
        c['c'] = {}
      c = c['c']
    return c
  for kind, ci, ni, on_child in prog:
    col, name = COLS[ci], NAMES[ni]
    on_child = bool(on_child)
    mut = mutable_ref(col)
    if kind == 0:
      c = coll(col, on_child, False)
      y = y + (num(c[name]) if c is not None and name in c else 1000)
      log.append('ok')
    elif kind in (1, 6, 7):
      if not mut:
        log.append('ModifyScopeVariableError')
        continue
      c = coll(col, on_child, True)
      val = (y + 1) if kind == 1 else ({'n': y} if kind == 6 else dict(ARG0))
      if isinstance(val, dict) and isinstance(c.get(name), dict):
        c[name] = {**c[name], **val}       # documented: sub-dicts are merged
      else:
        c[name] = val
      log.append('ok')
    elif kind in (2, 3):
      if (name, col) in reserved[on_child]:
        log.append('Duplicate')
        continue
      reserved[on_child].add((name, col))
      c = coll(col, on_child, False)
      if c is None or name not in c:
        if not mut:
          empty = col not in model or not model[col]
          log.append('ScopeCollectionNotFound' if empty
                     else 'ScopeVariableNotFoundError')
          continue
        c = coll(col, on_child, True)
        c[name] = 10
      if kind == 2:
        y = y + num(c[name])
        log.append('ok')
      else:
        if not mut:
          log.append('ModifyScopeVariableError')
          continue
        c[name] = num(c[name]) + x
        log.append('ok')
    elif kind == 4:
      c = coll(col, on_child, False)
      y = y + (1 if c is not None and name in c else 0)
      log.append('ok')
    elif kind == 5:
      y = y + (2 if mut else 0)
      log.append('ok')
  return y, log


def _prog(n, k0, c0, n0, h0, k1, c1, n1, h1, k2, c2, n2, h2):
  raw = [(k0, c0, n0, h0), (k1, c1, n1, h1), (k2, c2, n2, h2)]
  prog = []
  for (k, c, nm, h) in raw[:n]:
    prog.append((pick(list(range(NOPS)), k), pick([0, 1, 2], c), pick([0, 1], nm),
                 True if h else False))
  for (k, c, nm, h) in raw[n:]:
    if k != 0 or c != 0 or nm != 0 or h:
      raise Reject()
  return prog


def plain(t):
  if isinstance(t, (dict, FrozenDict)):
    return {k: plain(v) for k, v in t.items()}
  return t


def reservations(mi, c0, c1, c2, n0, n1, n2, h, x):
  """three variable declarations in one scope (any collections / names): a name
  may be declared once per collection; a repeat raises and changes nothing"""
  return apply_contract(mi, False, 1, 0, 0, x, 3, 2, c0, n0, h, 2, c1, n1, h, 3, c2,
                        n2, h)


def apply_same_slot(mi, a, b, x, n, k0, c0, n0, h0, k1, h1, k2, h2):
  """histories whose ops all aim at the same (collection, name) slot, on the root
  or the child scope"""
  z = lambda i, v: v if n > i else 0
  return apply_contract(mi, mi % 2 == 1, mi % 3, a, b, x, n, k0, c0, n0, h0,
                        k1, z(1, c0), z(1, n0), h1, k2, z(2, c0), z(2, n0), h2)


def apply_contract(mi, frozen, with_cache, a, b, x, n, k0, c0, n0, h0, k1, c1, n1,
                   h1, k2, c2, n2, h2):
  """functional-core apply: inputs untouched, repeatable, result and mutable output
  equal the reference semantics, returned tree shares nothing with the input."""
  prog = _prog(n, k0, c0, n0, h0, k1, c1, n1, h1, k2, c2, n2, h2)
  _, mk, mref = pick(MUT, mi)
  variables = mk_vars(a, b, frozen, with_cache)
  snap, ids = snapshot(variables)
  in_ids = dict_ids(variables, set())
  outs = []
  mut_arg, mut_pristine = mk(), mk()
  for rep in range(2):
    log = []
    argd = dict(ARG0)
    out = S.apply(lambda sc, xx, dd: run_program(sc, xx, prog, log, dd),
                  mutable=mut_arg)(variables, x, argd)
    if type(mut_arg) is not type(mut_pristine) or mut_arg != mut_pristine:
      return False
    if argd != ARG0:
      return False                    # an argument of apply was modified
    snap2, ids2 = snapshot(variables)
    if snap2 != snap or ids2 != ids:
      return False                    # input changed (content or container ids)
    outs.append((out, log))
  # reference
  model = plain(mk_vars(a, b, False, with_cache))
  y_ref, log_ref = ref_program(model, mref, x, prog)
  for out, log in outs:
    if log != log_ref:
      return False
    if mi == 0:
      if out != y_ref:
        return False
      continue
    y, mvars = out
    if y != y_ref:
      return False
    want = {c: v for c, v in model.items() if mref(c)}
    if plain(mvars) != want:
      return False
    if dict_ids(unfreeze(mvars) if isinstance(mvars, FrozenDict) else mvars,
                set()) & in_ids:
      return False                    # aliasing between returned and supplied trees
  # mutating what was returned must not reach the input
  if mi != 0:
    mv = outs[0][0][1]
    if isinstance(mv, dict):
      for c in mv.values():
        if isinstance(c, dict):
          c['zz'] = 1
      if snapshot(variables)[0] != snap:
        return False
  return True


def init_same_slot(mi, x, n, k0, c0, n0, h0, k1, h1):
  z = lambda i, v: v if n > i else 0
  return init_contract(mi, 0, x, n, k0, c0, n0, h0, k1, z(1, c0), z(1, n0), h1, 0,
                       0, 0, 0)


def init_contract(mi, a, x, n, k0, c0, n0, h0, k1, c1, n1, h1, k2, c2, n2, h2):
  """functional-core init: starts from no variables, returns every collection that
  matches `mutable` (default True), rng dict untouched"""
  prog = _prog(n, k0, c0, n0, h0, k1, c1, n1, h1, k2, c2, n2, h2)
  _, mk, mref = pick(MUT, mi)
  if mi == 0:
    raise Reject()
  key = _KEY
  rngs = {'params': key}
  kd = _KEY_DATA
  log = []
  y, vs = S.init(lambda sc, xx: run_program(sc, xx, prog, log), mutable=mk())(
      rngs, x)
  if list(rngs) != ['params'] or rngs['params'] is not key:
    return False
  if untraced(lambda: np.asarray(jax.random.key_data(key)).tolist()) != kd:
    return False
  model = {}
  y_ref, log_ref = ref_program(model, mref, x, prog)
  return y == y_ref and log == log_ref and plain(vs) == {
      c: v for c, v in model.items() if mref(c)}


_KEY = jax.random.key(1)
_KEY_DATA = np.asarray(jax.random.key_data(_KEY)).tolist()

# ------------------------------------------------------------------ Module level
class Leaf(nn.Module):
  @nn.compact
  def __call__(self, x):
    w = self.param('w', lambda rng: 3)
    cnt = self.variable('stats', 'count', lambda: 0)
    if self.is_mutable_collection('stats'):
      cnt.value = cnt.value + 1
    self.sow('intermediates', 'h', x * w)
    return x * w + cnt.value


class Top(nn.Module):
  shared: bool = False
  style: int = 0

  def setup(self):
    if self.style == 1:
      self.l0 = Leaf()
      self.l1 = Leaf()

  @nn.compact
  def _compact(self, x):
    l0 = Leaf(name='l0')
    l1 = l0 if self.shared else Leaf(name='l1')
    k = self.param('k', lambda rng: 2)
    return l1(l0(x)) + k

  def __call__(self, x):
    if self.style == 1:
      return self.l1(self.l0(x)) + 2
    return self._compact(x)


def module_contract(mi, shared, style, w0, w1, c0, c1, x, sow, capture):
  """Module.apply: module object / variables / args untouched; output equals the
  closed form; only collections selected by `mutable` are returned; sow and
  capture_intermediates do not change the primary output."""
  if style == 1 and shared:
    raise Reject()
  _, mk, mref = pick(MUT, mi)
  mod = Top(shared=bool(shared), style=style)
  before = dict(vars(mod))
  variables = {'params': {'l0': {'w': w0}}, 'stats': {'l0': {'count': c0}}}
  if not shared:
    variables['params']['l1'] = {'w': w1}
    variables['stats']['l1'] = {'count': c1}
  if style == 0:
    variables['params']['k'] = 2
  snap, ids = snapshot(variables)
  mutable = mk()
  pristine = mk()
  # 'intermediates' only when asked (explicit list, built without flax helpers)
  if sow:
    mutable = [c for c in ('params', 'stats') if mref(c)] + ['intermediates']
    pristine = list(mutable)
  smut = mref('stats')

  def expected():
    y = x
    cc = {'l0': c0, 'l1': c1}
    order = ['l0', 'l0'] if shared else ['l0', 'l1']
    ww = {'l0': w0, 'l1': w1}
    for nm in order:
      if smut:
        cc[nm] = cc[nm] + 1
      y = y * ww[nm] + cc[nm]
    return y + 2, cc
  outs = []
  for rep in range(2):
    out = mod.apply(variables, x, mutable=mutable,
                    capture_intermediates=bool(capture))
    if snapshot(variables) != (snap, ids) or dict(vars(mod)) != before:
      return False
    if type(mutable) is not type(pristine) or mutable != pristine:
      return False                 # the caller's filter object was modified
    outs.append(out)
  y_ref, cc = expected()
  for out in outs:
    if mi == 0 and not sow:
      if capture:
        return False if not isinstance(out, tuple) else out[0] == y_ref
      if out != y_ref:
        return False
      continue
    y, upd = out
    if y != y_ref:
      return False
    upd = plain(upd)
    cols = set(upd)
    want_cols = {c for c in ('params', 'stats') if mref(c)}
    if sow or (capture and mref('intermediates')):
      pass
    if (cols - {'intermediates'}) != want_cols:
      return False
    if 'stats' in upd:
      names = ['l0'] if shared else ['l0', 'l1']
      if upd['stats'] != {nm: {'count': cc[nm]} for nm in names}:
        return False
    if 'params' in upd and upd['params'] != snap['params']:
      return False
  return True


EXPLANATION = (
    'C01: scope programs of <=3 operations (get/put/variable/has_variable/'
    'is_mutable/put-subtree, on the root or a child scope, over 3 collections x 2 '
    'names) under %d mutable-filter forms, dict and FrozenDict inputs, run twice '
    'through flax.core.apply/init and compared with an independent reference '
    'interpreter; leaf values are symbolic ints so outputs are compared as terms. '
    'Module level: compact and setup styles, shared submodule called twice, sow / '
    'capture_intermediates.' % NMUT)
ASSUMPTIONS = (
    'leaves are ints (arrays are opaque to this code); RNG key bits are compared '
    'concretely in init_contract only',
    'programs longer than the bound, array leaves, flax_return_frozendict=True '
    'outside the claim',
    'jax.core.get_opaque_trace_state compat shim installed by the harness process',
)


def obligations(tier):
  quick = tier == 'quick'
  F = qualnames(S.apply, S.init, S.bind, S._unfreeze_variables,
                S.Scope.mutable_variables, S.Scope.put_variable,
                S.Scope.get_variable, S.Scope.variable, S.Scope.has_variable,
                S.Scope._mutable_collection, S.Scope._collection, S.Scope.push,
                S.Scope.reserve, S.Scope.is_mutable_collection, S.in_filter)
  Gm = qualnames(nn.Module.apply, nn.Module.sow, nn.Module.param,
                 nn.Module.variable)
  kind = I(0, NOPS - 1)
  col = I(0, 2)
  nm = I(0, 1)
  prog = dict(k0=kind, c0=col, n0=nm, h0=B(), k1=kind, c1=col, n1=nm, h1=B(),
              k2=kind, c2=col, n2=nm, h2=B())
  nmax = 2 if quick else 3
  zero = dict(k1=I(0, 0), c1=I(0, 0), n1=I(0, 0), h1=I(0, 0), k2=I(0, 0),
              c2=I(0, 0), n2=I(0, 0), h2=I(0, 0))
  obs = [
      Ob('core_apply_single_op', apply_contract,
         dict(mi=I(0, NMUT - 1), frozen=B(), with_cache=I(0, 2), a=I(-3, 3),
              b=I(-3, 3), x=I(-3, 3), n=I(0, 1), k0=kind, c0=col, n0=nm, h0=B(),
              **zero),
         split=('mi', 'k0'), timeout=600, funcs=F,
         bounds='every single op (7 kinds x 3 collections x 2 names x root/child) '
                'x %d mutable forms x dict/FrozenDict x cache present/absent, 2 '
                'repeated calls' % NMUT),
      Ob('core_reservations', reservations,
         dict(mi=I(0, 3), c0=col, c1=col, c2=col, n0=nm, n1=nm, n2=nm, h=B(),
              x=I(-3, 3)), split=('mi', 'c0'), timeout=600, funcs=F,
         bounds='3 variable() declarations over 3 collections x 2 names in one '
                'scope (root or child)'),
      Ob('core_apply_same_slot', apply_same_slot,
         dict(mi=I(0, NMUT - 1), a=I(-3, 3), b=I(-3, 3), x=I(-3, 3),
              n=I(2, 2 if quick else 3), k0=kind, c0=col, n0=nm, h0=B(), k1=kind,
              h1=B(), k2=kind if not quick else I(0, 0),
              h2=B() if not quick else I(0, 0)),
         split=('mi', 'k0', 'k1'), timeout=900, funcs=F,
         bounds='all op sequences of length 2%s aimed at one (collection, name) '
                'slot through root/child scopes, %d mutable forms' % (
                    '' if quick else '..3', NMUT)),
      Ob('core_init_contract', init_same_slot,
         dict(mi=I(1, NMUT - 1), x=I(-3, 3), n=I(0, 2), k0=kind, c0=col, n0=nm,
              h0=B(), k1=kind, h1=B()),
         split=('mi', 'k0'), timeout=600, funcs=F,
         bounds='<=2 ops on one (collection, name) slot from an empty variable '
                'tree'),
      Ob('module_apply_contract', module_contract,
         dict(mi=I(0, NMUT - 1), shared=B(), style=I(0, 1), w0=I(-3, 3),
              w1=I(-3, 3), c0=I(-3, 3), c1=I(-3, 3), x=I(-3, 3), sow=B(),
              capture=B()),
         split=('mi', 'shared', 'style'), timeout=900, funcs=Gm,
         per_path_timeout=60.0,
         bounds='compact/setup styles, shared submodule called twice, sow and '
                'capture_intermediates on/off, %d mutable forms, symbolic params, '
                'counters and input' % NMUT),
  ]
  if not quick:
    obs.append(
        Ob('core_apply_pairs', apply_contract,
           dict(mi=I(0, 3), frozen=B(), with_cache=I(0, 0), a=I(-3, 3), b=I(-3, 3),
                x=I(-3, 3), n=I(2, 2), **{**prog, 'k2': I(0, 0), 'c2': I(0, 0),
                                          'n2': I(0, 0), 'h2': I(0, 0)}),
           split=('mi', 'k0', 'k1', 'c0'), timeout=1200, funcs=F,
           bounds='all ordered pairs of ops, first 4 mutable forms'))
  return obs
