#!/usr/bin/env python3
"""seedround2.py RUN_N BASE PID K ... : record the first-run result of a round-2 change
(taken on a frozen /verif snapshot by tools/seedsnap.sh under `vp run`) in
seeded/<PID>-<K+2>/meta.json, then run tools/seedtest.py on the current tree."""
import json, os, re, subprocess, sys
run_n, base = sys.argv[1], sys.argv[2]
offset = int(os.environ.get('SEED_OFFSET', '2'))
pairs = list(zip(sys.argv[3::2], sys.argv[4::2]))
snap = {}
for rn in run_n.split(','):
  rj = json.load(open('/root/.vp/runs/%s/run.json' % rn))
  for l in open('/root/.vp/runs/%s/log' % rn, errors='replace'):
    m = re.match(r'SNAP (\S+) (\d+) rc=(\d+) (\d+)s (.*?) :: (.*)', l)
    if m:
      snap[(m.group(1), m.group(2))] = dict(rc=int(m.group(3)), summary=m.group(5),
                                            cex=m.group(6).strip(), run=rn,
                                            commit=rj['verif_commit'][:7])
for pid, k in pairs:
  outk = str(int(k) + offset)
  out = '/verif/seeded/%s-%s' % (pid, outk)
  os.makedirs(out, exist_ok=True)
  mp = os.path.join(out, 'meta.json')
  if not os.path.exists(mp) and (pid, k) in snap:
    s = snap[(pid, k)]
    json.dump(dict(property=pid, k=outk, history=[dict(
        detected=s['rc'] == 1, summary=[s['summary']],
        note='first run, on the frozen /verif snapshot %s (vp run %s), before any '
             'strengthening prompted by this change' % (s['commit'], s['run']),
        counterexample=s['cex'][:200])]), open(mp, 'w'), indent=1)
  wt = '%s/%s' % (base, pid)
  if not os.path.isdir(wt):
    subprocess.run('git -C /repo worktree add -q --detach %s HEAD' % wt, shell=True)
  else:
    subprocess.run('git -C %s checkout -q --detach %s' % (
        wt, subprocess.run('git -C /repo rev-parse HEAD', shell=True,
                           capture_output=True, text=True).stdout.strip()), shell=True)
  r = subprocess.run('/venv/bin/python /verif/tools/seedtest.py %s %s --base=%s --outk=%s'
                     % (pid, k, base, outk), shell=True, capture_output=True, text=True)
  print((r.stdout + r.stderr).strip()[-400:], flush=True)
