"""Engine A: CrossHair (symbolic execution of the real Python code, z3 per branch).

`explore(fn, domains, timeout)` runs `fn` over *symbolic* arguments until the path
tree is exhausted (every branch feasibility decided by z3 -> "exhausted": the
harness returned True on every path inside the stated domain), a path fails
(candidate counterexample = a z3 model of that path, realised to plain values), or
the time budget is hit (inconclusive).  This is crosshair.core.explore_paths with
explicit status tracking; no contract enforcement / short-circuiting is involved, so
metaclass __call__ (nnx.Object) runs normally.
"""
import inspect
import sys
import time
import traceback
from time import process_time

from crosshair.core import (ExceptionFilter, Patched, deep_realize, gen_args,
                            realize)
from crosshair.core_and_libs import standalone_statespace  # noqa: F401 (loads libs)
from crosshair.copyext import CopyMode, deepcopyext
from crosshair.statespace import (CallAnalysis, RootNode, StateSpace,
                                  StateSpaceContext, VerificationStatus,
                                  NotDeterministic)
from crosshair.tracers import COMPOSITE_TRACER, NoTracing, ResumedTracing
from crosshair.util import IgnoreAttempt, UnexploredPath


class I:
  """int in [lo, hi]"""

  def __init__(self, lo, hi):
    self.lo, self.hi = lo, hi
    self.typ = int

  def size(self):
    return self.hi - self.lo + 1

  def values(self):
    return range(self.lo, self.hi + 1)

  def check(self, v):
    return self.lo <= v <= self.hi

  def __repr__(self):
    return 'int[%d..%d]' % (self.lo, self.hi)


class B:
  typ = bool

  def size(self):
    return 2

  def values(self):
    return (False, True)

  def check(self, v):
    return True

  def __repr__(self):
    return 'bool'


class Z:
  """unbounded int (optionally lo/hi one-sided)"""

  def __init__(self, lo=None, hi=None):
    self.lo, self.hi = lo, hi
    self.typ = int

  def size(self):
    return None

  def check(self, v):
    return (self.lo is None or v >= self.lo) and (self.hi is None or v <= self.hi)

  def __repr__(self):
    return 'int[%s..%s]' % (self.lo, self.hi)


class S:
  """free str, len <= n (bug-hunting conditions; rarely exhaust)"""

  def __init__(self, n):
    self.n = n
    self.typ = str

  def size(self):
    return None

  def check(self, v):
    return len(v) <= self.n

  def __repr__(self):
    return 'str[len<=%d]' % self.n


def pick(pool, i):
  """pool[i] for a symbolic index over a pool of arbitrary objects: forks one path
  per value (CrossHair cannot build a symbolic `object`)."""
  for k, v in enumerate(pool):
    if i == k:
      return v
  raise Reject()


def untraced(fn, *a, **k):
  """run fn outside CrossHair's tracer (real jax/numpy calls on concrete values
  must not be interpreted symbolically); plain call when not tracing"""
  from crosshair.tracers import is_tracing
  if is_tracing():
    with NoTracing():
      return fn(*a, **k)
  return fn(*a, **k)


def concretize(x, lo, hi):
  """fork one path per value so that x is a plain int (needed before a value
  crosses a C boundary such as pickle/msgpack/jax arrays)"""
  for c in range(lo, hi + 1):
    if x == c:
      return c
  raise Reject()


def assume(c):
  if not c:
    raise IgnoreAttempt('assume')


import contextlib
import os

# VERIF_SYMDICT=1 restores CrossHair's symbolic dict() inside harness functions
REAL_DICTS = os.environ.get('VERIF_SYMDICT', '0') != '1'


@contextlib.contextmanager
def real_dicts():
  """CrossHair replaces every `dict(...)` call made under its tracer by a
  ShellMutableMap; jax's C++ pytree code does not see that as a dict (it becomes a
  LEAF), so flax code that builds a dict with dict() and hands it to jax.tree_util
  behaves differently under the tracer than in reality.  Inside this context dict()
  is the real constructor (keys are realised when hashed)."""
  pm = COMPOSITE_TRACER.patching_module
  with NoTracing():
    saved = pm.overrides.pop(dict, None)
  try:
    yield
  finally:
    with NoTracing():
      if saved is not None:
        pm.overrides[dict] = saved


def with_real_dicts(fn):
  import functools

  @functools.wraps(fn)
  def g(*a, **k):
    with real_dicts():
      return fn(*a, **k)
  return g


class Reject(Exception):
  """Raised by a harness for an input outside its precondition (concrete mode)."""


def explore(fn, domains, fixed, timeout, per_path_timeout=30.0, want_witness=True):
  """fn(**kwargs) -> truthy = property holds on this path.

  domains: ordered {name: I|B|Z|S} symbolic arguments; fixed: {name: value}.
  Returns dict(status, paths, confirmed_paths, unknown_paths, cex, witness, err).
  status in exhausted | refuted | timeout | error
  """
  params = [inspect.Parameter(n, inspect.Parameter.POSITIONAL_OR_KEYWORD,
                              annotation=d.typ) for n, d in domains.items()]
  sig = inspect.Signature(params)
  search_root = RootNode()
  res = dict(status='timeout', paths=0, confirmed_paths=0, unknown_paths=0,
             ignored_paths=0, cex=None, witness=None, err=None, solver_s=0.0)
  t_start = process_time()
  wall0 = time.time()

  def body(args):
    kw = dict(args.arguments)
    for n, d in domains.items():
      if not d.check(kw[n]):
        raise IgnoreAttempt('domain')
    kw.update(fixed)
    try:
      if REAL_DICTS:
        with real_dicts():
          return bool(fn(**kw))
      return bool(fn(**kw))
    except Reject:
      raise IgnoreAttempt('reject')

  while True:
    itr_start = process_time()
    if itr_start > t_start + timeout:
      break
    space = StateSpace(execution_deadline=itr_start + per_path_timeout,
                       model_check_timeout=per_path_timeout / 2,
                       search_root=search_root)
    breakout = False
    with Patched(), COMPOSITE_TRACER, NoTracing(), StateSpaceContext(space):
      try:
        pre_args = gen_args(sig)
        args = deepcopyext(pre_args, CopyMode.REGULAR, {})
        ret = None
        user_exc = None
        with ExceptionFilter() as efilter, ResumedTracing():
          ret = body(args)
        if efilter.user_exc:
          if isinstance(efilter.user_exc[0], NotDeterministic):
            raise NotDeterministic
          user_exc = efilter.user_exc
        elif efilter.ignore:
          # IgnoreAttempt / UnexploredPath are re-raised by the filter itself;
          # reaching here with ignore set means a swallowed internal signal.
          raise IgnoreAttempt('filtered')
        res['paths'] += 1
        failing = user_exc is not None or ret is not True
        if failing or (want_witness and res['witness'] is None):
          with ResumedTracing(), ExceptionFilter() as ef2:
            space.detach_path()
            concrete = deep_realize(pre_args)
            vals = {k: realize(v) for k, v in concrete.arguments.items()}
          if ef2.user_exc or ef2.ignore:
            raise UnexploredPath('could not realise model')
          vals.update(fixed)
          if failing:
            why = ('returned %r' % (ret,) if user_exc is None else
                   '%s: %s\n%s' % (type(user_exc[0]).__name__, user_exc[0],
                                   ''.join(traceback.format_list(user_exc[1])[-6:])))
            res['cex'] = dict(args=vals, why=why[:4000])
            res['status'] = 'refuted'
            breakout = True
          else:
            res['witness'] = vals
        status = VerificationStatus.CONFIRMED
        res['confirmed_paths'] += 1
      except IgnoreAttempt:
        status = None
        res['ignored_paths'] += 1
      except UnexploredPath as e:
        status = VerificationStatus.UNKNOWN
        res['unknown_paths'] += 1
        if res['err'] is None:
          res['err'] = 'first unknown path: %s: %s @ %s' % (
              type(e).__name__, e, ';'.join(
                  '%s:%d' % (f.filename.split('/')[-1], f.lineno)
                  for f in traceback.extract_tb(e.__traceback__)[-5:]))
      except NotDeterministic:
        res['status'] = 'error'
        res['err'] = 'NotDeterministic\n' + traceback.format_exc()[-2000:]
        break
      _analysis, exhausted = space.bubble_status(CallAnalysis(status))
      try:
        res['solver_s'] += float(getattr(space, 'solver_time', 0.0) or 0.0)
      except Exception:
        pass
    if breakout:
      break
    if exhausted:
      top = search_root.child.get_result()
      if res['unknown_paths'] == 0 and top.verification_status in (
          VerificationStatus.CONFIRMED, None):
        # (None: every path of this partition was outside the precondition)
        res['status'] = 'exhausted'
      else:
        res['status'] = 'unknown'
      break
  res['cpu_s'] = process_time() - t_start
  res['wall_s'] = time.time() - wall0
  return res
