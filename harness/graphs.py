"""Symbolic NNX object-graph builder + an independent reference model (shared by
C03, C04, C08)."""
import typing as tp
import numpy as np
from flax import nnx

from vf.xh import Reject, pick


class Mod(nnx.Module):
  def __init__(self, tag):
    self.tag = tag            # static attribute


class Stat(nnx.Variable):
  pass


class Rec(tp.NamedTuple):
  """a generic pytree attribute whose field order is not alphabetical"""
  total: tp.Any
  count: tp.Any


SRC = ['M0', 'M1', 'L', 'D']                       # edge sources
DST = ['M0', 'M1', 'L', 'P0', 'B0', 'static', 'array', 'P1', 'D', 'M2']
NSRC_Q, NDST_Q = 3, 7


def build(edges, v0, v1, v2, base=True, table=False, record=False):
  """edges: list of (src, dst, hi) concrete small ints (after pick).  Base structure
  (when base): M0.child = M1, M0.items = L, M0.p = P0, M1.b = B0.  Every extra edge
  adds an attribute / list element / dict entry, so aliasing, self references and
  cycles are values of the edge list."""
  o = {}
  o['M0'], o['M1'], o['M2'] = Mod('m0'), Mod('m1'), Mod('m2')
  o['L'], o['D'] = [], {}
  o['P0'] = nnx.Param(v0)
  o['P1'] = nnx.Param(v1, tag='t1')
  o['B0'] = nnx.BatchStat(v2)
  o['static'] = 7
  o['array'] = np.arange(3)
  if base:
    o['M0'].child = o['M1']
    o['M0'].items = o['L']
    o['M0'].p = o['P0']
    o['M1'].b = o['B0']
  if table:
    # int-keyed container whose keys order differently as numbers and as strings
    o['M0'].table = {2: nnx.Param(v0 + 50), 10: nnx.Param(v1 + 60)}
  if record:
    o['M0'].rec = Rec(total=nnx.Param(v0 + 70), count=nnx.Param(v1 + 80))
  for i, (s, d, hi) in enumerate(edges):
    src, dst = o[SRC[s]], o[DST[d]]
    if isinstance(src, list):
      src.append(dst)
    elif isinstance(src, dict):
      src['k%d' % i] = dst
    else:
      setattr(src, ('a%d' if hi else 'z%d') % i, dst)
  return o


def is_graph(x):
  return isinstance(x, nnx.Module)


def children(x):
  """(key, value) in the order flax documents: sorted attribute names for Modules,
  index order for lists/tuples, sorted keys for dicts"""
  if isinstance(x, nnx.Module):
    return [(k, v) for k, v in sorted(vars(x).items()) if k != '_object__state']
  if isinstance(x, tuple) and hasattr(x, '_fields'):
    # a generic pytree node (NamedTuple): children by field name, sorted
    return sorted(zip(x._fields, x))
  if isinstance(x, (list, tuple)):
    return list(enumerate(x))
  if isinstance(x, dict):
    return sorted(x.items())
  return None


def canon(root):
  """reference canonical form: {path: descriptor}; graph nodes and Variables get
  ids in first-visit order, later visits are ('ref', id).  Also returns the
  identity map path -> id(obj) and first-visit Variable paths."""
  ids = {}
  out = {}
  ident = {}
  var_first = {}

  def visit(x, path, stack):
    ident[path] = id(x)
    if isinstance(x, nnx.Variable):
      if id(x) in ids:
        out[path] = ('ref', ids[id(x)])
        return
      ids[id(x)] = len(ids)
      var_first[path] = x
      meta = tuple(sorted((k, v) for k, v in x.get_metadata().items()))
      out[path] = ('var', type(x).__name__, ids[id(x)], x.value, meta)
      return
    if is_graph(x):
      if id(x) in ids:
        out[path] = ('ref', ids[id(x)])
        return
      ids[id(x)] = len(ids)
      out[path] = ('mod', type(x).__name__, ids[id(x)])
    elif isinstance(x, (list, tuple, dict)):
      if id(x) in stack:
        raise Reject()       # a container containing itself is not a finite tree
      out[path] = (type(x).__name__, len(x))
      stack = stack | {id(x)}
    elif isinstance(x, np.ndarray):
      out[path] = ('array', tuple(x.tolist()))
      var_first[path] = x      # array attributes are state leaves at every path
      return
    else:
      out[path] = ('static', x)
      return
    for k, v in children(x):
      visit(v, path + (k,), stack)
  visit(root, (), frozenset())
  return out, ident, var_first


def pick_edges(n, codes, nsrc, ndst):
  """codes: [(s, d, hi)] symbolic; returns concrete edge list of length n"""
  edges = []
  for (s, d, hi) in codes[:n]:
    edges.append((pick(list(range(nsrc)), s), pick(list(range(ndst)), d),
                  True if hi else False))
  for (s, d, hi) in codes[n:]:
    if s != 0 or d != 0 or hi:
      raise Reject()
  return edges
