"""C10 -- state-dict / msgpack round trip; mismatches rejected by key, not position."""
import collections

from flax import serialization as SER
from flax import struct
from flax.core import FrozenDict
from flax.core import frozen_dict as FD

from harness.common import qualnames
from vf.ob import Ob
from vf.xh import I, B, Reject, pick, concretize

NT_ab = collections.namedtuple('NT_ab', ['a', 'b'])
NT_ac = collections.namedtuple('NT_ac', ['a', 'c'])
NT_a = collections.namedtuple('NT_a', ['a'])
NT_ba = collections.namedtuple('NT_ba', ['b', 'a'])   # same fields, other order
NTS = [NT_ab, NT_ac, NT_a, NT_ba]


@struct.dataclass
class S_pq:
  p: int
  q: int
  tag: str = struct.field(pytree_node=False, default='s')


@struct.dataclass
class S_pr:
  p: int
  r: int


@struct.dataclass
class S_pqr:
  p: int
  q: int
  r: int


@struct.dataclass
class S_qp:
  q: int
  p: int


SS = [S_pq, S_pr, S_pqr, S_qp]
KEYS = ['a', 'b', 'c']


# ----------------------------------------------------------------- tree builder
def child(kind, v):
  """second-level subtree; v = base leaf value (symbolic int)"""
  return pick([
      lambda: v,
      lambda: None,
      lambda: {'k': v, 'l': v + 1},
      lambda: [v, v + 1],
      lambda: (v,),
      lambda: NT_ab(v, [v + 1]),
      lambda: S_pq(v, {'z': v + 1}),
      lambda: FrozenDict({'k': v, 'm': {'n': v + 1}}),
      lambda: {},
      lambda: [],
      lambda: (),
      lambda: 'str%d' % 7,
      lambda: {'1': v, '0': v + 1},          # digit-string keys are still a dict
      lambda: [v + i for i in range(12)],    # indices '10','11' sort before '2'
  ], kind)()


NCHILD = 14


def tree(top, n, c0, c1, c2, v):
  kids = [child(c, v + 10 * i) for i, c in enumerate((c0, c1, c2)[:n])]
  for c in (c0, c1, c2)[n:]:
    if c != 0:
      raise Reject()
  return pick([
      lambda: dict(zip(KEYS, kids)),
      lambda: FrozenDict(dict(zip(KEYS, kids))),
      lambda: list(kids),
      lambda: tuple(kids),
      lambda: NT_ab(*(kids + [0, 0])[:2]),
      lambda: S_pq(*(kids + [0, 0])[:2]),
      lambda: {'outer': list(kids)},
      lambda: [dict(zip(KEYS, kids)), tuple(kids)],
  ], top)()


NTOP = 8


def same(a, b):
  """deep equality including container types"""
  if type(a) is not type(b):
    return False
  if isinstance(a, (dict, FrozenDict)):
    return set(a.keys()) == set(b.keys()) and all(same(a[k], b[k]) for k in a)
  if isinstance(a, (list, tuple)):      # includes namedtuples (type checked above)
    return len(a) == len(b) and all(same(x, y) for x, y in zip(a, b))
  if isinstance(a, (S_pq, S_pr, S_pqr, S_qp)):
    return all(same(getattr(a, f), getattr(b, f)) for f in a.__dataclass_fields__)
  return a == b


def pure(sd):
  """a state dict is made of plain dicts with str keys and leaves only"""
  if isinstance(sd, dict):
    return type(sd) is dict and all(
        isinstance(k, str) and pure(x) for k, x in sd.items())
  return not isinstance(sd, (list, tuple, FrozenDict))


def roundtrip(top, n, c0, c1, c2, v, w):
  """from_state_dict(t, to_state_dict(t)) == t (same container types);
  to_state_dict leaves t untouched and yields plain str-keyed dicts; restoring the
  state of a same-shaped tree with other leaf values yields those values."""
  t = tree(top, n, c0, c1, c2, v)
  keep = tree(top, n, c0, c1, c2, v)
  sd = SER.to_state_dict(t)
  if not same(t, keep) or not pure(sd):
    return False
  back = SER.from_state_dict(t, sd)
  if not same(back, keep) or not same(t, keep):
    return False
  other = tree(top, n, c0, c1, c2, w)
  got = SER.from_state_dict(t, SER.to_state_dict(other))
  if not same(got, other) or not same(t, keep):
    return False
  # entries are matched by key / index string, never by position: a state dict
  # whose insertion order is reversed at every level restores the same tree
  got2 = SER.from_state_dict(t, reverse_keys(SER.to_state_dict(other)))
  return same(got2, other)


def reverse_keys(sd):
  if isinstance(sd, dict):
    return {k: reverse_keys(sd[k]) for k in reversed(list(sd.keys()))}
  return sd


def _err_ok(e, must_name):
  msg = str(e)
  return isinstance(e, ValueError) and all(m in msg for m in must_name)


def mismatch(kind, depth, ta, tb, v):
  """target and saved state of the same container kind but different keys /
  length / field names: restored by key, or ValueError naming the path"""
  vals = [v + 1, v + 2, v + 3]
  if kind in (0, 1):                   # dict / FrozenDict: key bit sets
    mk = dict if kind == 0 else (lambda d: FrozenDict(d))
    tk = [k for i, k in enumerate(KEYS) if (ta >> i) & 1]
    sk = [k for i, k in enumerate(KEYS) if (tb >> i) & 1]
    target = mk({k: 0 for k in tk})
    saved = mk({k: vals[KEYS.index(k)] for k in sk})
    ok = set(tk) <= set(sk)
    want = mk({k: vals[KEYS.index(k)] for k in tk})
  elif kind in (2, 3):                 # list / tuple: lengths
    la, lb = ta % 4, tb % 4
    if ta >= 4 or tb >= 4:
      raise Reject()
    mk = list if kind == 2 else tuple
    target = mk([0] * la)
    saved = mk(vals[:lb])
    ok = la == lb
    want = mk(vals[:la])
  elif kind == 4:                      # namedtuple field names
    if ta >= 4 or tb >= 4:
      raise Reject()
    A, Bc = pick(NTS, ta), pick(NTS, tb)
    target = A(*[0] * len(A._fields))
    saved = Bc(*[vals['abc'.index(f)] for f in Bc._fields])
    ok = set(A._fields) == set(Bc._fields)
    want = A(*[vals['abc'.index(f)] for f in A._fields])
  elif kind == 6:                      # surplus saved entry named like a STATIC field
    if ta >= 2 or tb >= 2 or depth != 0:
      raise Reject()
    target = S_pq(0, 0)
    sd = {'p': vals[0], 'q': vals[1]}
    if tb:
      sd['tag'] = 's'                   # 'tag' is pytree_node=False in S_pq
    ok = not tb
    want = S_pq(vals[0], vals[1])
    try:
      got = SER.from_state_dict(target, sd)
    except ValueError as e:
      return (not ok) and 'tag' in str(e)
    return ok and same(got, want)
  else:                                # dataclass field names
    if ta >= 4 or tb >= 4:
      raise Reject()
    A, Bc = pick(SS, ta), pick(SS, tb)
    fa = [f for f in A.__dataclass_fields__ if f != 'tag']
    fb = [f for f in Bc.__dataclass_fields__ if f != 'tag']
    target = A(**{f: 0 for f in fa})
    saved = Bc(**{f: vals['pqr'.index(f)] for f in fb})
    ok = set(fa) == set(fb)
    want = A(**{f: vals['pqr'.index(f)] for f in fa})
  names = []
  if depth == 1:
    target, saved, want = {'outer': target}, {'outer': saved}, {'outer': want}
    names = ['outer']
  elif depth == 2:
    target = [0, {'mid': target}]
    saved = [5, {'mid': saved}]
    want = [5, {'mid': want}]
    names = ['1', 'mid']
  sd = SER.to_state_dict(saved)
  try:
    got = SER.from_state_dict(target, sd)
  except ValueError as e:
    return (not ok) and _err_ok(e, names)
  return ok and same(got, want)


# ----------------------------------------------------------------- chunking
class _DT:
  def __init__(self, itemsize):
    self.itemsize = itemsize


class FakeArr:
  """list-backed stand-in for np.ndarray: just enough for _chunk/_unchunk"""

  def __init__(self, data, shape, itemsize):
    self.data = list(data)
    self.shape = tuple(shape)
    self.dtype = _DT(itemsize)

  @property
  def size(self):
    n = 1
    for s in self.shape:
      n *= s
    return n

  def reshape(self, *shape):
    if len(shape) == 1 and isinstance(shape[0], (tuple, list)):
      shape = tuple(shape[0])
    if shape == (-1,):
      shape = (len(self.data),)
    n = 1
    for s in shape:
      n *= s
    assert n == len(self.data), 'cannot reshape'
    return FakeArr(self.data, shape, self.dtype.itemsize)

  def __getitem__(self, sl):
    assert isinstance(sl, slice) and len(self.shape) == 1
    d = self.data[sl]
    return FakeArr(d, (len(d),), self.dtype.itemsize)


class _NP:
  ndarray = FakeArr

  @staticmethod
  def concatenate(parts):
    data = []
    for p in parts:
      assert len(p.shape) == 1
      data.extend(p.data)
    return FakeArr(data, (len(data),), parts[0].dtype.itemsize if parts else 1)

  def __getattr__(self, name):
    import numpy
    return getattr(numpy, name)


SHAPES = [(0,), (1,), (5,), (2, 3), (3, 2), (1, 6), (6, 1), (2, 1, 3), (), (7,),
          (2, 2, 2), (12,), (3, 4), (2, 1, 1, 1, 1, 1, 1, 1, 1, 1, 3)]


def chunking(sh, it, M, e0, e1, e2, e3, e4, e5, e6, e7, nest, e8=0, e9=0, e10=0,
             e11=0):
  """_chunk_array_leaves_in_place / _unchunk_array_leaves_in_place: identity on
  elements, order and shape, for the given MAX_CHUNK_SIZE (bytes); every chunk
  within the limit when one item fits; result independent of the threshold."""
  shape = pick(SHAPES, sh)
  itemsize = pick([1, 2, 4, 8, 16], it)
  # int(MAX_CHUNK_SIZE / itemsize) is float arithmetic: undecidable for CrossHair
  # with a symbolic threshold, so the threshold is forked into concrete values
  # (the division itself is covered for all M by the SMT lemma chunk_arith)
  M = concretize(M, 1, 200)
  n = 1
  for s in shape:
    n *= s
  elems = [e0, e1, e2, e3, e4, e5, e6, e7, e8, e9, e10, e11][:n]
  arr = FakeArr(elems, shape, itemsize)
  old_np, old_max = SER.np, SER.MAX_CHUNK_SIZE
  SER.np = _NP()
  SER.MAX_CHUNK_SIZE = M
  try:
    tree_ = pick([lambda: arr, lambda: {'x': arr, 'y': 3},
                  lambda: {'o': {'x': arr}, 'y': {'z': arr}}], nest)()
    ch = SER._chunk_array_leaves_in_place(tree_)
    chunked = n * itemsize > M

    def find(d):
      if isinstance(d, dict) and '__msgpack_chunked_array__' in d:
        return [d]
      if isinstance(d, dict):
        return [x for v in d.values() for x in find(v)]
      return []
    cs = find(ch)
    if chunked != bool(cs):
      return False
    for c in cs:
      pieces = SER._dict_to_tuple(c['chunks'])
      flat = []
      for p in pieces:
        if len(p.data) == 0:
          return False                   # no empty chunks
        if itemsize <= M and len(p.data) * itemsize > M:
          return False                   # each chunk within the byte limit
        flat.extend(p.data)
      if flat != elems or SER._dict_to_tuple(c['shape']) != shape:
        return False
    back = SER._unchunk_array_leaves_in_place(ch)
    arrs = [back] if nest == 0 else (
        [back['x']] if nest == 1 else [back['o']['x'], back['y']['z']])
    for a in arrs:
      if not isinstance(a, FakeArr) or a.data != elems or a.shape != shape:
        return False
    return True
  finally:
    SER.np, SER.MAX_CHUNK_SIZE = old_np, old_max


EXPLANATION = (
    'C10: to_state_dict/from_state_dict over dict/FrozenDict/list/tuple/'
    'namedtuple/struct-dataclass trees (nesting<=3, symbolic int leaves), mismatch '
    'matrix per container kind at depth 0..2 (restore by key or ValueError naming '
    'the path), chunk/unchunk on a list-backed array stand-in with symbolic '
    'elements.')
ASSUMPTIONS = (
    'numpy/msgpack byte codecs (_ndarray_to_bytes/_from_bytes, dtype names, '
    'bfloat16/float8/int4, memory layouts, msgpack framing) are C code on concrete '
    'bytes and are NOT covered',
    'chunking runs with flax.serialization.np rebound to a list-backed stand-in '
    '(shape/size/itemsize/reshape/slice/concatenate)',
    'jax.core.get_opaque_trace_state compat shim installed by the harness process',
)


def obligations(tier):
  quick = tier == 'quick'
  F = qualnames(SER.to_state_dict, SER.from_state_dict, SER._list_state_dict,
                SER._restore_list, SER._dict_state_dict, SER._restore_dict,
                SER._namedtuple_state_dict, SER._restore_namedtuple,
                FD._frozen_dict_state_dict, FD._restore_frozen_dict,
                struct.dataclass)
  G = qualnames(SER._chunk, SER._unchunk, SER._chunk_array_leaves_in_place,
                SER._unchunk_array_leaves_in_place)
  ck = I(0, NCHILD - 1)
  el = I(-2, 2)
  return [
      Ob('state_dict_roundtrip', roundtrip,
         dict(top=I(0, NTOP - 1), n=I(0, 2 if quick else 3), c0=ck, c1=ck, c2=ck,
              v=I(-3, 3), w=I(-3, 3)),
         split=('top', 'n', 'c0'), timeout=300, funcs=F,
         bounds='%d top-level containers x <=%d children of %d kinds (nesting<=3)'
                % (NTOP, 2 if quick else 3, NCHILD)),
      Ob('state_dict_mismatch', mismatch,
         dict(kind=I(0, 6), depth=I(0, 2), ta=I(0, 7), tb=I(0, 7), v=I(-3, 3)),
         split=('kind', 'depth'), timeout=300, funcs=F,
         bounds='dict/FrozenDict key sets over 3 keys, list/tuple lengths 0..3, 4 '
                'namedtuple and 4 dataclass field layouts, at depth 0..2'),
      Ob('chunk_roundtrip', chunking,
         dict(sh=I(0, len(SHAPES) - 1), it=I(0, 4), M=I(1, 24 if quick else 140),
              e0=el, e1=el, e2=el, e3=el, e4=el, e5=el, e6=el, e7=el,
              nest=I(0, 2), e8=el, e9=el, e10=el, e11=el),
         split=('sh', 'it'), timeout=300, funcs=G,
         bounds='shapes %r, itemsize 1..16, MAX_CHUNK_SIZE 1..%d bytes, symbolic '
                'elements' % (SHAPES, 24 if quick else 140)),
  ]
