"""C15 -- FrozenDict and struct dataclasses are immutable values, faithful pytrees."""
import dataclasses
import pickle

import jax
from flax.core import frozen_dict as FD
from flax.core import FrozenDict, freeze, unfreeze
from flax import struct

from harness.common import qualnames
from vf.ob import Ob
from vf.xh import I, B, Reject, pick, concretize


def plain(t):
  if isinstance(t, (dict, FrozenDict)):
    return {k: plain(v) for k, v in t.items()}
  return t


def mk_src(shape, v):
  """fresh source object for each shape code; nested dict / FrozenDict mixes"""
  return pick([
      lambda: {'a': {'x': v, 'y': {'z': v + 1}}, 'b': v + 2},
      lambda: {'a': {'x': v, 'y': FrozenDict({'z': v + 1})}, 'b': v + 2},
      lambda: {'a': FrozenDict({'x': v, 'y': {'z': v + 1}}), 'b': {}},
      lambda: {'a': {}, 'b': {'y': {'z': {}}}},
      lambda: {},
      lambda: {'a': {'x': v, 'y': {'z': v + 1}}, 'b': {'x': v + 2}},
  ], shape)()


NSHAPE = 6
# mutation targets inside a plain nested dict (applied where the path exists)
MUT = [('a', 'x'), ('a', 'y', 'z'), ('b',), ('a',), ('new',), ('a', 'y', 'new')]


def mutate(d, m, val=999):
  """best-effort in-place mutation of a plain-dict view at MUT[m]; returns True if
  something was written"""
  path = pick(MUT, m)
  cur = d
  for k in path[:-1]:
    if not isinstance(cur, dict) or k not in cur:
      return False
    cur = cur[k]
  if not isinstance(cur, dict):
    return False
  cur[path[-1]] = val
  return True


def construct(how, src):
  return pick([lambda: FrozenDict(src), lambda: freeze(src),
               lambda: FrozenDict(**src), lambda: FrozenDict(list(src.items())),
               lambda: freeze(freeze(src)), lambda: FrozenDict(src).copy({})],
              how)()


NOPS = 12


def history(shape, how, v, o1, o2, o3, p1, p2, p3):
  """after every API call / mutation of sources and returned values the FrozenDict
  still equals the snapshot taken at construction (and its hash is unchanged)"""
  if o1 == 6 or o2 == 6 or o3 == 6:
    v = concretize(v, -2, 2)     # pickle is a C boundary: no symbolic ints inside
  src = mk_src(shape, v)
  fd = construct(how, src)
  snap = plain(mk_src(shape, v))
  if plain(fd) != snap:
    return False
  h0 = hash(fd)
  extra = {'n': {'m': v}}
  for op, p in ((o1, p1), (o2, p2), (o3, p3)):
    if op == 0:                       # mutate the source
      mutate(src, p)
    elif op == 1:                     # unfreeze, mutate the copy
      u = unfreeze(fd) if p % 2 == 0 else fd.unfreeze()
      if plain(u) != snap or isinstance(u, FrozenDict):
        return False
      mutate(u, p)
    elif op == 2:                     # copy with additions, then mutate additions
      c = fd.copy(extra) if p % 2 == 0 else FD.copy(fd, extra)
      want = dict(snap)
      want['n'] = {'m': v}
      if plain(c) != want or not isinstance(c, FrozenDict):
        return False
      extra['n']['m'] = -1
      extra['n']['q'] = 5
      if plain(c) != want:
        return False
      extra = {'n': {'m': v}}
    elif op == 3:                     # pop
      key = pick(['a', 'b', 'zz'], p % 3)
      try:
        new, val = fd.pop(key) if p < 3 else FD.pop(fd, key)
      except KeyError:
        if key in snap:
          return False
        continue
      want = {k: x for k, x in snap.items() if k != key}
      if key not in snap or plain(new) != want or plain(val) != snap[key]:
        return False
      if isinstance(snap[key], dict) and not isinstance(val, FrozenDict):
        return False
    elif op == 4:                     # indexing returns frozen views
      for k in snap:
        x = fd[k]
        if isinstance(snap[k], dict):
          if not isinstance(x, FrozenDict):
            return False
          try:
            x['q'] = 1
            return False
          except ValueError:
            pass
    elif op == 5:                     # iteration
      it = dict(fd.items())
      if set(it) != set(snap) or list(fd.keys()) != list(snap) or len(fd) != len(
          snap):
        return False
      for k, x in it.items():
        if isinstance(x, dict):
          return False
      vals = list(fd.values())
      if len(vals) != len(snap):
        return False
    elif op == 6:                     # pickle
      r = pickle.loads(pickle.dumps(fd))
      if r != fd or hash(r) != h0 or not isinstance(r, FrozenDict):
        return False
    elif op == 7:                     # pytree round trip / tree_map
      leaves, td = jax.tree_util.tree_flatten(fd)
      r = jax.tree_util.tree_unflatten(td, leaves)
      if r != fd or not isinstance(r, FrozenDict) or hash(r) != h0:
        return False
      m = jax.tree_util.tree_map(lambda x: x + 1, fd)
      if not isinstance(m, FrozenDict):
        return False
      inc = lambda t: {k: inc(x) for k, x in t.items()} if isinstance(t, dict) else t + 1
      if plain(m) != inc(snap):
        return False
    elif op == 8:                     # direct mutation attempts
      try:
        fd['a'] = 1
        return False
      except ValueError:
        pass
      try:
        del fd['a']
        return False
      except (TypeError, ValueError, AttributeError):
        pass
    elif op == 9:                     # re-freeze then unfreeze + mutate
      g = freeze(fd)
      if g != fd:
        return False
      mutate(unfreeze(g), p)
    elif op == 10:                    # mutate what items() of an unfrozen copy gives
      u = unfreeze(fd.copy({}))
      mutate(u, p)
    elif op == 11:                    # FrozenDict built from fd and a dict view
      g = FrozenDict({'w': fd, 'src': src})
      mutate(src, p)
      if plain(g['w']) != snap:
        return False
    if plain(fd) != snap or hash(fd) != h0:
      return False
  return True


def history2(shape, how, o1, o2, p1, p2, same):
  if same and p2 != p1:
    raise Reject()
  return history(shape, how, 0, o1, o2, 5, p1, p2, 0)


PERMS = [(0, 1, 2), (0, 2, 1), (1, 0, 2), (1, 2, 0), (2, 0, 1), (2, 1, 0)]


def eq_hash(pa, pb, v, w, nested):
  """equal contents compare and hash equal regardless of insertion order; different
  contents compare unequal"""
  def build(perm, val):
    items = [('k0', val), ('k1', {'x': val + 1, 'y': 2} if nested else val + 1),
             ('k2', 3)]
    d = {}
    for i in pick(PERMS, perm):
      k, x = items[i]
      if isinstance(x, dict) and perm % 2:
        x = dict(reversed(list(x.items())))
      d[k] = x
    return FrozenDict(d)
  a, b = build(pa, v), build(pb, w)
  if v == w:
    return a == b and hash(a) == hash(b) and b == a
  return a != b


# ------------------------------------------------------------------ struct
def _mk_cls(layout, base):
  """layout bits: field i is a pytree node iff bit i set (3 fields)"""
  ann = {}
  ns = {}
  shared_meta = {'doc': 'shared by every field'}    # one dict reused by all calls
  for i in range(3):
    ann['f%d' % i] = int
    if not (layout >> i) & 1:
      ns['f%d' % i] = struct.field(pytree_node=False, metadata=shared_meta)
    elif base == 1:
      ns['f%d' % i] = struct.field(pytree_node=True, metadata=shared_meta)
  ns['__annotations__'] = ann
  if base == 1:
    return type('S', (struct.PyTreeNode,), ns)
  if base == 2:
    # slots=True makes dataclasses build a NEW class object
    return struct.dataclass(type('S', (), ns), slots=True)
  return struct.dataclass(type('S', (), ns))


_CLS = {(l, b): _mk_cls(l, b) for l in range(8) for b in (0, 1, 2)}


def struct_props(layout, base, a0, a1, a2, s0, s1, s2, r, nv):
  """frozen; replace changes exactly the named field on a new instance; leaves ==
  node fields; static fields travel in the treedef; tree_map rebuilds the class"""
  base = pick([0, 1, 2], base)
  cls = pick([_CLS[(l, base)] for l in range(8)], layout)
  vals = []
  for i, (a, s) in enumerate(((a0, s0), (a1, s1), (a2, s2))):
    node = (layout >> i) & 1
    if node:
      if s != 0:
        raise Reject()
      vals.append(a)              # symbolic leaf
    else:
      if a != 0:
        raise Reject()
      vals.append(pick([10, 11], s))   # static: concrete after fork
  obj = cls(*vals)
  # frozen
  try:
    obj.f0 = 5
    return False
  except dataclasses.FrozenInstanceError:
    pass
  # replace
  name = 'f%d' % r
  new = obj.replace(**{name: nv})
  if new is obj or type(new) is not cls:
    return False
  for i in range(3):
    want_new = nv if i == r else vals[i]
    if getattr(new, 'f%d' % i) != want_new or getattr(obj, 'f%d' % i) != vals[i]:
      return False
  # pytree structure
  leaves, td = jax.tree_util.tree_flatten(obj)
  want_leaves = [vals[i] for i in range(3) if (layout >> i) & 1]
  if len(leaves) != len(want_leaves):
    return False
  for x, y in zip(leaves, want_leaves):
    if x is not y and x != y:
      return False
  back = jax.tree_util.tree_unflatten(td, leaves)
  if type(back) is not cls or back != obj:
    return False
  mapped = jax.tree_util.tree_map(lambda x: x + 1, obj)
  if type(mapped) is not cls:
    return False
  for i in range(3):
    want = vals[i] + 1 if (layout >> i) & 1 else vals[i]
    if getattr(mapped, 'f%d' % i) != want:
      return False
  # static fields are part of the treedef: changing one changes the treedef,
  # changing a node field does not
  if (layout >> r) & 1:
    td2 = jax.tree_util.tree_structure(obj.replace(**{name: vals[r] + 7}))
    return td2 == td
  td2 = jax.tree_util.tree_structure(obj.replace(**{name: vals[r] + 7}))
  return td2 != td


EXPLANATION = (
    'C15: histories of <=3 API calls / mutations on FrozenDicts built in 6 ways '
    'from 6 nested dict/FrozenDict shapes, deep content and hash compared with the '
    'construction-time snapshot after every step; order-independent ==/hash; '
    'struct.dataclass / PyTreeNode with every node/static layout of 3 fields.')
ASSUMPTIONS = (
    'leaves are ints (array leaves are opaque to this code); list/tuple leaves are '
    'not copied by freeze by design and are outside the claim',
    '"forces a retrace" and jit/vmap/grad reconstruction need real JAX tracing: '
    'only treedef (in)equality and tree_map/flatten/unflatten are decided',
    'jax.core.get_opaque_trace_state compat shim installed by the harness process',
)


def obligations(tier):
  quick = tier == 'quick'
  F = qualnames(FrozenDict.__init__, FrozenDict.__getitem__, FrozenDict.copy,
                FrozenDict.pop, FrozenDict.items, FrozenDict.__hash__,
                FrozenDict.__reduce__, FrozenDict.tree_flatten_with_keys,
                FrozenDict.tree_unflatten, FD._prepare_freeze, FD.freeze,
                FD.unfreeze, FD.copy, FD.pop)
  G = qualnames(struct.dataclass, struct.PyTreeNode.__init_subclass__)
  op = I(0, NOPS - 1)
  pm = I(0, len(MUT) - 1)
  obs = [
      Ob('frozendict_history1', history,
         dict(shape=I(0, NSHAPE - 1), how=I(0, 5), v=I(0, 1), o1=op, o2=I(5, 5),
              o3=I(5, 5), p1=pm, p2=I(0, 0), p3=I(0, 0)),
         split=('shape', 'how'), timeout=300, funcs=F,
         bounds='every single op (12 kinds x 6 mutation targets) x 6 shapes x 6 '
                'constructors, followed by an items() read'),
      Ob('frozendict_history2', history2,
         dict(shape=I(0, 2 if quick else NSHAPE - 1), how=I(0, 1 if quick else 3),
              o1=op, o2=op, p1=pm, p2=pm, same=B() if not quick else I(1, 1)),
         split=('shape', 'how', 'o1'), timeout=600, funcs=F,
         bounds='all ordered pairs of ops; quick: 3 shapes x 2 constructors, both '
                'ops aim at the same mutation target; thorough: 6 x 4, independent '
                'targets'),
      Ob('frozendict_eq_hash', eq_hash,
         dict(pa=I(0, 5), pb=I(0, 5), v=I(-3, 3), w=I(-3, 3), nested=B()),
         timeout=300, funcs=F, bounds='3 keys, all insertion orders'),
      Ob('struct_dataclass', struct_props,
         dict(layout=I(0, 7), base=I(0, 2), a0=I(-3, 3), a1=I(-3, 3), a2=I(-3, 3),
              s0=I(0, 1), s1=I(0, 1), s2=I(0, 1), r=I(0, 2), nv=I(20, 22)),
         split=('layout', 'base'), timeout=300, funcs=G,
         bounds='3 fields, every node/static layout, struct.dataclass and '
                'PyTreeNode'),
  ]
  if not quick:
    obs.append(
        Ob('frozendict_history3', history,
           dict(shape=I(0, 1), how=I(0, 0), v=I(0, 0), o1=op, o2=op, o3=op, p1=pm,
                p2=I(0, 0), p3=I(1, 1)),
           split=('shape', 'o1', 'o2'), timeout=900, funcs=F,
           bounds='all histories of 3 ops on 2 shapes, FrozenDict(src)'))
  return obs
