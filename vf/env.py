"""Environment bootstrap shared by every check.

* re-executes the current command under the overlay venv /verif/.venv
  (= /venv's site-packages + crosshair-tool from the offline wheelhouse),
  creating it when missing (checks see committed files only);
* installs the jax-compat shim needed by the pinned flax on this jax
  (harness-side, not a change to flax): jax.core.get_opaque_trace_state.
"""
import fcntl
import os
import subprocess
import sys

VERIF = os.path.dirname(os.path.dirname(os.path.abspath(__file__)))
REPO = os.environ.get('VERIF_REPO', '/repo')
VENV = os.path.join(VERIF, '.venv')
BASE = '/venv'
WHEELS = '/opt/veriftools/wheels'
GUARD = 'GOOGLE_FLAX_VERIF'


def ensure_venv():
  py = os.path.join(VENV, 'bin', 'python')
  marker = os.path.join(VENV, '.ok')
  if os.path.exists(marker):
    return py
  os.makedirs(os.path.join(VERIF, '.work'), exist_ok=True)
  with open(os.path.join(VERIF, '.work', 'venv.lock'), 'w') as lk:
    fcntl.flock(lk, fcntl.LOCK_EX)
    if os.path.exists(marker):
      return py
    subprocess.run(['rm', '-rf', VENV], check=True)
    subprocess.run([os.path.join(BASE, 'bin', 'python'), '-m', 'venv', VENV],
                   check=True)
    sp = os.path.join(VENV, 'lib', 'python3.12', 'site-packages')
    with open(os.path.join(sp, '_overlay.pth'), 'w') as f:
      f.write("import site; site.addsitedir('%s/lib/python3.12/site-packages')\n"
              % BASE)
    env = dict(os.environ, PIP_NO_INDEX='1')
    subprocess.run([os.path.join(VENV, 'bin', 'pip'), 'install', '-q',
                    '--no-index', '--find-links', WHEELS, 'crosshair-tool'],
                   check=True, env=env, stdout=sys.stderr)
    open(marker, 'w').write('ok\n')
  return py


def reexec_in_venv():
  """Called at the top of CLI entry points."""
  py = ensure_venv()
  if os.path.realpath(sys.prefix) != os.path.realpath(VENV):
    env = dict(os.environ)
    env[GUARD] = '1'
    env.setdefault('JAX_PLATFORMS', 'cpu')
    env.setdefault('PYTHONHASHSEED', '0')
    env['PYTHONPATH'] = VERIF + os.pathsep + REPO
    os.execve(py, [py] + sys.argv, env)


_shimmed = False


def shim():
  """jax 0.11 removed jax.core.get_opaque_trace_state; flax 0.10.5 calls it."""
  global _shimmed
  if _shimmed:
    return
  for p in (REPO, VERIF):
    if p not in sys.path:
      sys.path.insert(0, p)
  import jax
  import jax.core
  import jax.extend.core
  if 'get_opaque_trace_state' not in jax.core.__dict__:
    jax.core.__dict__['get_opaque_trace_state'] = (
        jax.extend.core.get_opaque_trace_state)
  _shimmed = True
