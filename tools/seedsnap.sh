#!/bin/bash
# first-run of seeded changes against a frozen snapshot of /verif and a scratch copy
# of /repo (vp run --with-repo).  usage: seedsnap.sh BASE "PID K" "PID K" ...
base=$1; shift
here="$(cd "$(dirname "$0")/.." && pwd)"
cd "$here"
repo=${VP_RUN_REPO:?needs vp run --with-repo}
for pk in "$@"; do
  set -- $pk; pid=$1; k=$2
  patch=$base/${pid}_out/$k/patch.diff
  git -C $repo apply $patch || { echo "$pid $k PATCH-FAILED"; continue; }
  s=$(date +%s)
  VERIF_REPO=$repo /venv/bin/python vf/run.py $pid --tier quick --no-evidence > /tmp/seedsnap_${pid}_$k.log 2>&1
  rc=$?
  git -C $repo checkout -- .
  echo "SNAP $pid $k rc=$rc $(( $(date +%s) - s ))s $(grep "^$pid tier" /tmp/seedsnap_${pid}_$k.log | cut -c1-150) :: $(grep -m1 '^counterexample' /tmp/seedsnap_${pid}_$k.log | cut -c1-160)"
done
