#!/usr/bin/env python
"""Entry point:  python vf/run.py <PROPERTY_ID> [--tier quick|thorough] [--only OB]
                 python vf/run.py --replay <path>

Exit 0: nothing explored violated the property (INCONCLUSIVE lines possible)
Exit 1: a replayed violation not listed in known_findings.json
Exit 3: harness error (canary / reachability witness / non-reproducing cex / crash)
"""
import argparse
import hashlib
import importlib
import json
import os
import queue
import random
import select
import subprocess
import sys
import threading
import time

sys.path.insert(0, os.path.dirname(os.path.dirname(os.path.abspath(__file__))))
from vf import env  # noqa: E402

MODULES = {}  # property id -> harness module name


def harness_module(pid):
  return 'harness.%s' % pid.lower()


class WorkerProc:

  def __init__(self):
    self.spawn()

  def spawn(self):
    r1, w1 = os.pipe()  # parent -> child
    r2, w2 = os.pipe()  # child -> parent
    self.p = subprocess.Popen(
        [sys.executable, '-m', 'vf.worker', str(r1), str(w2)],
        pass_fds=(r1, w2), cwd=env.VERIF, stdout=subprocess.DEVNULL,
        stderr=open(os.path.join(env.VERIF, '.work', 'worker.err'), 'a'))
    os.close(r1)
    os.close(w2)
    self.w = os.fdopen(w1, 'w')
    self.rfd = r2
    self.buf = b''

  def kill(self):
    try:
      self.p.kill()
      self.p.wait()
    except Exception:
      pass
    try:
      self.w.close()
      os.close(self.rfd)
    except Exception:
      pass

  def run(self, job, hard_timeout):
    try:
      self.w.write(json.dumps(job) + '\n')
      self.w.flush()
    except Exception:
      self.kill()
      self.spawn()
      return dict(id=job['id'], status='error', err='worker pipe broken')
    deadline = time.time() + hard_timeout
    while True:
      left = deadline - time.time()
      if left <= 0:
        self.kill()
        self.spawn()
        return dict(id=job['id'], status='timeout', err='hard timeout', paths=0)
      r, _, _ = select.select([self.rfd], [], [], min(left, 5))
      if r:
        chunk = os.read(self.rfd, 1 << 16)
        if not chunk:
          rc = self.p.poll()
          self.kill()
          self.spawn()
          return dict(id=job['id'], status='error', paths=0,
                      err='worker died rc=%r' % rc)
        self.buf += chunk
        if b'\n' in self.buf:
          line, self.buf = self.buf.split(b'\n', 1)
          return json.loads(line)


def run_jobs(jobs, nworkers):
  q = queue.Queue()
  for j in jobs:
    q.put(j)
  results = {}
  lock = threading.Lock()
  t_start = time.time()

  def loop():
    w = WorkerProc()
    while True:
      try:
        j = q.get_nowait()
      except queue.Empty:
        break
      res = w.run(j, j['timeout'] * 2 + 120)
      with lock:
        results[j['id']] = res
        if len(results) % 50 == 0 or len(results) == len(jobs):
          sys.stderr.write('[vf] %d/%d jobs done (%.0fs)\n' % (
              len(results), len(jobs), time.time() - t_start))
          sys.stderr.flush()
    w.kill()
  ths = [threading.Thread(target=loop) for _ in range(min(nworkers, len(jobs)))]
  for t in ths:
    t.start()
  for t in ths:
    t.join()
  return results


def replay_file(path):
  """Runs the stored counterexample on the real code, untraced, fresh process.
  returns (rc, output): rc 1 = property fails (reproduces), 0 = holds, 2 = rejected
  """
  p = subprocess.run([sys.executable, '-m', 'vf.replay', path], cwd=env.VERIF,
                     capture_output=True, text=True, timeout=600)
  return p.returncode, (p.stdout + p.stderr)[-3000:]


def write_replay(pid, modname, ob, tier, args, why):
  d = os.path.join(env.VERIF, 'replays', pid)
  os.makedirs(d, exist_ok=True)
  blob = dict(property=pid, module=modname, ob=ob, tier=tier, args=args, why=why)
  dig = hashlib.sha1(json.dumps([pid, ob, args], sort_keys=True,
                                default=repr).encode()).hexdigest()[:12]
  path = os.path.join(d, '%s_%s.json' % (ob, dig))
  with open(path, 'w') as f:
    json.dump(blob, f, indent=1, default=repr)
  return path


def load_known(pid):
  path = os.path.join(env.VERIF, 'known_findings.json')
  if not os.path.exists(path):
    return []
  data = json.load(open(path))
  return [e for e in data.get('findings', []) if e['property'] == pid]


def main():
  ap = argparse.ArgumentParser()
  ap.add_argument('pid', nargs='?')
  ap.add_argument('--tier', default=os.environ.get('VERIF_TIER', 'quick'))
  ap.add_argument('--only', default=None)
  ap.add_argument('--replay', default=None)
  ap.add_argument('--jobs', type=int, default=int(os.environ.get('VERIF_JOBS', '16')))
  ap.add_argument('--no-evidence', action='store_true')
  ap.add_argument('--scale', type=float,
                  default=float(os.environ.get('VERIF_TIMEOUT_SCALE', '1')))
  a = ap.parse_args()
  env.reexec_in_venv()
  os.makedirs(os.path.join(env.VERIF, '.work'), exist_ok=True)
  if a.replay:
    rc, out = replay_file(a.replay)
    print(out)
    blob = json.load(open(a.replay))
    if rc == 1:
      print('VIOLATION property=%s replay=%s' % (blob['property'], a.replay))
    sys.exit(1 if rc == 1 else 0)
  pid = a.pid
  tier = a.tier
  seed = int(os.environ.get('VERIF_SEED', '0'))
  t0 = time.time()
  sys.path.insert(0, env.REPO)
  env.shim()
  modname = harness_module(pid)
  mod = importlib.import_module(modname)
  from vf import canary
  obs = list(canary.obligations(tier)) + list(mod.obligations(tier))
  if a.only:
    obs = [o for o in obs if a.only in o.name]
  known = load_known(pid)

  # 1. known findings: replay each stored witness first
  regions = {}  # ob name -> [region exprs]
  known_lines = []
  for e in known:
    if e.get('status') == 'fixed':
      continue
    wpath = write_replay(pid, modname, e['ob'], tier, e['witness'], e['text'])
    rc, out = replay_file(wpath)
    if rc == 1:
      known_lines.append('KNOWN-FINDING: property=%s %s' % (pid, e['text']))
      regions.setdefault(e['ob'], []).append(e['region'])
    else:
      print('NOTE known finding no longer reproduces (carve-out dropped): %s'
            % e['text'])

  # 2. build jobs
  jobs = []
  jid = 0
  for ob in obs:
    mname = 'vf.canary' if ob.name.startswith('canary') else modname
    for fixed in ob.jobs():
      jobs.append(dict(id=jid, module=mname, ob=ob.name, tier=tier, fixed=fixed,
                       timeout=ob.timeout * a.scale,
                       regions=regions.get(ob.name)))
      jid += 1
  order = list(jobs)
  random.Random(seed).shuffle(order)
  # longest-timeout first keeps the tail short
  order.sort(key=lambda j: -j['timeout'])
  results = run_jobs(order, a.jobs)

  # 3. judge
  by_ob = {}
  for j in jobs:
    by_ob.setdefault(j['ob'], []).append((j, results[j['id']]))
  violations = []
  unreplayed = []
  retried = []
  harness_errors = []
  inconclusive = []
  ob_reports = []
  samples = []
  tot = dict(paths=0, queries=0, solver_s=0.0, jobs=0, discharged=0, cpu=0.0,
             evals=0, nontrivial=0)
  for ob in obs:
    mname = 'vf.canary' if ob.name.startswith('canary') else modname
    rows = by_ob.get(ob.name, [])
    st = {}
    witness = None
    ob_paths = 0
    ob_cpu = 0.0
    ob_max = 0.0
    reproduced_here = 0
    for j, r in rows:
      ob_cpu += r.get('wall_s', 0.0) or 0.0
      ob_max = max(ob_max, r.get('wall_s', 0.0) or 0.0)
      st[r['status']] = st.get(r['status'], 0) + 1
      tot['jobs'] += 1
      tot['paths'] += r.get('paths', 0) or 0
      ob_paths += r.get('paths', 0) or 0
      tot['evals'] += ((r.get('paths', 0) or 0) + (r.get('ignored_paths', 0) or 0)
                       + (r.get('unknown_paths', 0) or 0))
      if not ob.name.startswith('canary') and ob.expect == 'hold':
        tot['nontrivial'] += (r.get('confirmed_paths', 0) or 0) if ob.kind == 'xh' \
            else (r.get('paths', 0) or 0)
      tot['queries'] += r.get('queries', 0) or 0
      tot['solver_s'] += r.get('solver_s', 0.0) or 0.0
      tot['cpu'] += r.get('cpu_s', r.get('wall_s', 0.0)) or 0.0
      if witness is None and r.get('witness'):
        witness = r['witness']
      if r['status'] == 'refuted':
        path = write_replay(pid, mname, ob.name, tier, r['cex']['args'],
                            r['cex']['why'])
        if ob.expect == 'hold' and reproduced_here >= 3:
          # enough replayed violations for this obligation: further candidates are
          # stored (replayable with --replay) but not re-run now
          unreplayed.append((ob.name, path))
          continue
        rc, out = replay_file(path)
        if rc == 1 and ob.expect == 'hold':
          reproduced_here += 1
        if ob.expect == 'refute':
          if rc != 1:
            harness_errors.append('%s: expected-refuted obligation did not replay '
                                  '(rc=%d) %s' % (ob.name, rc, out[-300:]))
        elif rc == 1:
          violations.append((ob.name, path, r['cex']))
        else:
          # The candidate does not reproduce on the untraced real code: an engine
          # artefact (e.g. state left in a long-lived worker, a C boundary).  The
          # partition is explored once more in a FRESH worker process; only a
          # complete exploration there counts, otherwise it is a harness error.
          note = '%s %r: candidate %r did not reproduce (rc=%d); tracer said: %s' % (
              ob.name, j['fixed'], r['cex']['args'], rc,
              ' '.join(r['cex']['why'].split())[:400])
          print('NOTE', note)
          r2 = run_jobs([dict(j, id=j['id'])], 1)[j['id']]
          if r2.get('status') == 'exhausted':
            retried.append(note)
            st['refuted'] -= 1
            st['exhausted'] = st.get('exhausted', 0) + 1
            tot['paths'] += r2.get('paths', 0) or 0
            ob_paths += r2.get('paths', 0) or 0
            if witness is None and r2.get('witness'):
              witness = r2['witness']
          else:
            harness_errors.append('%s: counterexample %r did not reproduce on the '
                                  'real code (rc=%d) and the re-exploration ended '
                                  '%s: %s' % (ob.name, r['cex']['args'], rc,
                                              r2.get('status'), out[-300:]))
      elif r['status'] == 'error':
        # machinery failure (worker died, NotDeterministic, ...): one retry in a
        # fresh worker; a second failure is a harness error
        r2 = run_jobs([dict(j, id=j['id'])], 1)[j['id']]
        print('NOTE %s %r: worker error (%s); retry -> %s' % (
            ob.name, j['fixed'], ' '.join(str(r.get('err')).split())[:200],
            r2.get('status')))
        if r2.get('status') == 'exhausted':
          retried.append('%s %r: worker error, retried clean' % (ob.name, j['fixed']))
          st['error'] -= 1
          st['exhausted'] = st.get('exhausted', 0) + 1
          tot['paths'] += r2.get('paths', 0) or 0
          ob_paths += r2.get('paths', 0) or 0
          if witness is None and r2.get('witness'):
            witness = r2['witness']
        elif r2.get('status') in ('timeout', 'unknown'):
          st['error'] -= 1
          st[r2['status']] = st.get(r2['status'], 0) + 1
          if not ob.hunt:
            inconclusive.append('%s %r: %s after a worker error' % (
                ob.name, j['fixed'], r2['status']))
        else:
          harness_errors.append('%s %r: %s' % (ob.name, j['fixed'], r.get('err')))
      elif r['status'] in ('timeout', 'unknown'):
        if not ob.hunt:
          inconclusive.append('%s %r: %s after %d paths' % (
              ob.name, j['fixed'], r['status'], r.get('paths', 0)))
    done = st.get('exhausted', 0) == len(rows) and rows
    if ob.expect == 'refute':
      ok = st.get('refuted', 0) >= 1
      if not ok:
        harness_errors.append('%s: reachability/canary obligation was not refuted '
                              '(%r)' % (ob.name, st))
      done = ok
    elif ob.kind == 'xh' and done:
      if witness is None:
        harness_errors.append('%s: vacuous (no path reached the assertion)' % ob.name)
        done = False
      else:
        wp = write_replay(pid, mname, ob.name + '.witness', tier, witness, 'witness')
        blob = json.load(open(wp))
        blob['ob'] = ob.name
        json.dump(blob, open(wp, 'w'), default=repr)
        rc, out = replay_file(wp)
        if rc != 0:
          harness_errors.append('%s: reachability witness %r does not pass '
                                'concretely (rc=%d) %s' % (ob.name, witness, rc,
                                                           out[-500:]))
          done = False
    if done and not ob.hunt:
      tot['discharged'] += 1
    ob_reports.append(dict(name=ob.name, kind=ob.kind, expect=ob.expect,
                           hunt=ob.hunt, jobs=len(rows), status=st, paths=ob_paths,
                           discharged=bool(done), bounds=ob.bounds,
                           domains={k: repr(v) for k, v in ob.domains.items()},
                           split=list(ob.split), funcs=list(ob.funcs),
                           witness=witness))
    if witness is not None and not ob.name.startswith('canary'):
      samples.append(dict(obligation=ob.name, kind=ob.kind, bounds=ob.bounds,
                          reachability_witness=witness, paths=ob_paths,
                          verdict='discharged' if done else 'open'))
    print('%-44s %-6s jobs=%-4d %s paths=%d cpu=%.0fs maxjob=%.0fs' % (
        ob.name, 'OK' if done else ('HUNT' if ob.hunt else '??'), len(rows), st,
        ob_paths, ob_cpu, ob_max))

  for line in known_lines:
    print(line)
  for s in inconclusive[:40]:
    print('INCONCLUSIVE', s)
  for s in harness_errors:
    print('HARNESS-ERROR', s)
  if unreplayed:
    print('NOTE %d further candidate counterexamples stored without replay (first: '
          '%s)' % (len(unreplayed), unreplayed[0][1]))
  for name, path, cex in violations:
    print('counterexample %s: %r\n  %s' % (name, cex['args'], cex['why'][:1500]))
    print('VIOLATION property=%s replay=%s' % (pid, path))

  n_ob = len([o for o in obs if not o.hunt])
  wall = time.time() - t0
  if not a.no_evidence and not a.only:
    funcs = sorted({f for o in obs for f in o.funcs})
    assumes = sorted({x for o in obs for x in o.assumes} | set(
        getattr(mod, 'ASSUMPTIONS', ())))
    ev = dict(
        property_id=pid, tier=tier, seed=seed, level='other',
        coverage=dict(
            explanation=(
                'Bounded solver-based checking of the real code: each obligation '
                'is a harness over /repo\'s current flax modules executed '
                'symbolically (CrossHair: z3 decides every branch; "exhausted" = '
                'the path tree of the stated domain was explored completely and '
                'the assertion held on every path) or a z3 query generated from '
                'the real code (unsat of the negated property). Counterexamples '
                'are replayed on the untraced real code before being reported. '
                'Nothing outside the listed bounds is claimed; timeouts/unknown '
                'are inconclusive, not success. ' + getattr(mod, 'EXPLANATION', '')),
            obligations=n_ob, discharged=tot['discharged'],
            inconclusive=len(inconclusive),
            evaluations=max(tot['evals'], 1),
            distinct_nontrivial=tot['nontrivial'],
            rule=('evaluations = every explored symbolic path (each a distinct, '
                  'z3-feasible path condition over the harness arguments, i.e. an '
                  'equivalence class of inputs), including paths cut by the '
                  'precondition, plus SMT queries of solver-only obligations; '
                  'distinct_nontrivial = the paths that satisfied the precondition '
                  'and reached the final assertion (canaries and negative controls '
                  'excluded) plus discharged SMT queries; paths are distinct by '
                  'construction of the path tree'),
            paths_reaching_assertion=tot['paths'],
            jobs=tot['jobs'], smt_queries=tot['queries'],
            solver_s=round(tot['solver_s'], 2), cpu_s=round(tot['cpu'], 1),
            functions_encoded=funcs,
            obligation_reports=ob_reports,
            samples=(samples[:16] or [dict(note='none')]),
            inconclusive_list=inconclusive[:50],
            known_findings=known_lines,
            non_reproducing_candidates_reexplored=retried,
            exhaustive=(tot['discharged'] == n_ob),
        ),
        assumptions=assumes, wall_s=round(wall, 2), violations=len(violations))
    os.makedirs(os.path.join(env.VERIF, 'evidence'), exist_ok=True)
    with open(os.path.join(env.VERIF, 'evidence', '%s.json' % pid), 'w') as f:
      json.dump(ev, f, indent=1, default=repr)
  print('%s tier=%s obligations=%d discharged=%d inconclusive=%d violations=%d '
        'paths=%d smt_queries=%d solver_s=%.1f wall=%.1fs' % (
            pid, tier, n_ob, tot['discharged'], len(inconclusive), len(violations),
            tot['paths'], tot['queries'], tot['solver_s'], wall))
  if violations:
    sys.exit(1)
  if harness_errors:
    sys.exit(3)
  sys.exit(0)


if __name__ == '__main__':
  main()
