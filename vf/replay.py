"""Replay a stored counterexample / witness on the real code, untraced.
exit 1: property fails (reproduces); 0: holds; 2: input rejected by precondition."""
import json
import sys
import traceback


def main():
  from vf import env
  env.shim()
  from vf import worker, xh
  blob = json.load(open(sys.argv[1]))
  ob = worker.load_ob(blob['module'], blob['ob'], blob.get('tier', 'quick'))
  fn = ob.replay or ob.fn
  args = blob['args']
  try:
    ok = fn(**args)
  except xh.Reject:
    print('REJECTED (outside precondition):', args)
    sys.exit(2)
  except Exception:
    print('REPRODUCED: exception on real code for', args)
    traceback.print_exc()
    sys.exit(1)
  if ok is True:
    print('HOLDS for', args)
    sys.exit(0)
  print('REPRODUCED: property false on real code for', args, '->', ok)
  sys.exit(1)


if __name__ == '__main__':
  main()
