#!/usr/bin/env python3
"""Runs the repository's pinned baseline (guard OFF) and compares with BASELINE.json.
usage: baseline.py [repo_dir]   exit 0 iff every stable_pass test still passes."""
import json, os, subprocess, sys, tempfile, xml.etree.ElementTree as ET
repo = sys.argv[1] if len(sys.argv) > 1 else '/repo'
base = json.load(open('/root/.vp/BASELINE.json'))
out = tempfile.mkdtemp(prefix='vfbase-')
xml = os.path.join(out, 'r.xml')
env = dict(os.environ)
env.pop('GOOGLE_FLAX_VERIF', None)
cmd = base['cmd'].replace('cd /repo', 'cd %s' % repo).replace('<file>', xml)
subprocess.run(cmd, shell=True, env=env, stdout=subprocess.DEVNULL, stderr=subprocess.DEVNULL)
passed = set()
for tc in ET.parse(xml).getroot().iter('testcase'):
  if not any(c.tag in ('failure', 'error', 'skipped') for c in tc):
    passed.add('%s::%s' % (tc.get('classname'), tc.get('name')))
want = set(base['stable_pass'])
missing = sorted(want - passed)
print('stable_pass=%d still_passing=%d missing=%d' % (len(want), len(want & passed), len(missing)))
for m in missing[:40]:
  print('  NOT PASSING:', m)
subprocess.run(['rm', '-rf', out])
sys.exit(1 if missing else 0)
