#!/usr/bin/env python3
"""For every seeded change without a recorded baseline result: apply it in a scratch
worktree, run the pinned baseline there, record the result in meta.json, remove the
worktree.  usage: seedbaseline.py [parallelism]"""
import glob, json, os, subprocess, sys
from concurrent.futures import ThreadPoolExecutor
par = int(sys.argv[1]) if len(sys.argv) > 1 else 3


def one(d):
  mp = os.path.join(d, 'meta.json')
  if not os.path.exists(mp):
    return d, 'no meta.json yet'
  m = json.load(open(mp))
  if m.get('baseline_with_change_confirmed'):
    return d, 'cached'
  name = os.path.basename(d.rstrip('/'))
  wt = '/tmp/vfbase_%s' % name
  subprocess.run(['git', '-C', '/repo', 'worktree', 'remove', '--force', wt],
                 capture_output=True)
  r = subprocess.run(['git', '-C', '/repo', 'worktree', 'add', '-q', '--detach', wt,
                      'HEAD'], capture_output=True, text=True)
  try:
    a = subprocess.run(['git', '-C', wt, 'apply', os.path.join(d, 'patch.diff')],
                       capture_output=True, text=True)
    if a.returncode != 0:
      return d, 'patch does not apply: ' + a.stderr[:200]
    b = subprocess.run(['nice', '-n', '10', '/venv/bin/python',
                        '/verif/tools/baseline.py', wt], capture_output=True,
                       text=True, timeout=3600)
    line = (b.stdout.strip().splitlines() or ['?'])[0]
    m = json.load(open(mp))       # re-read: seedtest may have rewritten it
    m['baseline_with_change_confirmed'] = line
    m.setdefault('ran', []).append('pinned baseline (427 tests) in a scratch '
                                   'worktree with the change applied: ' + line)
    json.dump(m, open(mp, 'w'), indent=1)
    return d, line
  finally:
    subprocess.run(['git', '-C', '/repo', 'worktree', 'remove', '--force', wt],
                   capture_output=True)


dirs = sorted(glob.glob('/verif/seeded/*/'))
with ThreadPoolExecutor(par) as ex:
  for d, res in ex.map(one, dirs):
    print(os.path.basename(d.rstrip('/')), res, flush=True)
