"""C03 -- NNX split/merge round-trips any object graph (sharing, cycles)."""
import numpy as np
from flax import nnx
from flax.nnx import graph as G
from flax.nnx import statelib as SL
from flax.nnx import filterlib as FL

from harness.common import qualnames
from harness import graphs as GR
from vf.ob import Ob
from vf.xh import I, B, Reject, pick

FILTERS = [
    (lambda: (nnx.Param, ...), [lambda p, v: isinstance(v, nnx.Param), lambda p, v: True]),
    (lambda: (nnx.BatchStat, nnx.Param), [lambda p, v: isinstance(v, nnx.BatchStat), lambda p, v: isinstance(v, nnx.Param)]),
    (lambda: ('t1', nnx.Param, ...), [lambda p, v: getattr(v, 'tag', None) == 't1', lambda p, v: isinstance(v, nnx.Param), lambda p, v: True]),
    (lambda: (FL.PathContains('child'), ...), [lambda p, v: 'child' in p, lambda p, v: True]),
    (lambda: (FL.Not(nnx.Param), nnx.Variable), [lambda p, v: not isinstance(v, nnx.Param), lambda p, v: True]),
    (lambda: (FL.Any(nnx.BatchStat, 't1'), FL.All(nnx.Param, FL.PathContains('items')), ...),
     [lambda p, v: isinstance(v, nnx.BatchStat) or getattr(v, 'tag', None) == 't1',
      lambda p, v: isinstance(v, nnx.Param) and 'items' in p, lambda p, v: True]),
]
PERMS = {1: [(0,)], 2: [(0, 1), (1, 0)],
         3: [(0, 1, 2), (0, 2, 1), (1, 0, 2), (1, 2, 0), (2, 0, 1), (2, 1, 0)]}


def _graph(n, s0, d0, h0, s1, d1, h1, s2, d2, h2, v0, v1, v2, nsrc, ndst):
  edges = GR.pick_edges(n, [(s0, d0, h0), (s1, d1, h1), (s2, d2, h2)], nsrc, ndst)
  o = GR.build(edges, v0, v1, v2, table=True, record=True)
  return o


def _flat(state):
  return {p: _desc_state(v) for p, v in SL.to_flat_state(state)}


def _desc_state(v):
  if isinstance(v, np.ndarray):
    return ('ndarray', tuple(v.tolist()))
  return (type(v).__name__, v.type.__name__, v.value)


def _desc_ref(v):
  if isinstance(v, np.ndarray):
    return ('ndarray', tuple(v.tolist()))
  return ('VariableState', type(v).__name__, v.value)


def roundtrip(n, s0, d0, h0, s1, d1, h1, s2, d2, h2, v0, v1, v2, fi, perm, nsrc,
              ndst, perm2only=False):
  """merge(split(g)) isomorphic to g; g untouched; with filters every Variable in
  the first matching state only; any argument order merges to the same graph."""
  o = _graph(n, s0, d0, h0, s1, d1, h1, s2, d2, h2, v0, v1, v2, nsrc, ndst)
  root = o['M0']
  c0, id0, vars0 = GR.canon(root)
  mk, refs = pick(FILTERS, fi)
  filters = mk()
  try:
    graphdef, *states = nnx.split(root, *filters)
  except ValueError:
    # non-exhaustive filters: legal only if some Variable matches none
    return any(not any(r(p, v) for r in refs) for p, v in vars0.items())
  c1, id1, _ = GR.canon(root)
  if c1 != c0 or id1 != id0:
    return False                              # g itself untouched
  # first-match partition over first-visit paths
  want = [dict() for _ in refs]
  for p, v in vars0.items():
    for gi, r in enumerate(refs):
      if r(p, v):
        want[gi][p] = _desc_ref(v)
        break
    else:
      return False
  if [_flat(s) for s in states] != want:
    return False
  perms = PERMS[len(states)]
  if perm >= len(perms):
    raise Reject()
  order = pick(perms, perm)
  if perm2only and order != perms[0] and order != perms[-1]:
    raise Reject()
  g2 = nnx.merge(graphdef, *[states[i] for i in order])
  c2, id2, _ = GR.canon(g2)
  if c2 != c0:
    return False
  # nothing mutable shared with the original
  shared = set(id2.values()) & set(id0.values())
  for p, i in id2.items():
    if i in shared and c2[p][0] in ('mod', 'var', 'list', 'dict', 'ref'):
      return False
  return True


def state_update_clone_pop(n, s0, d0, h0, s1, d1, h1, s2, d2, h2, v0, v1, v2, op,
                           nsrc, ndst):
  o = _graph(n, s0, d0, h0, s1, d1, h1, s2, d2, h2, v0, v1, v2, nsrc, ndst)
  root = o['M0']
  c0, id0, vars0 = GR.canon(root)
  if op == 0:
    # state lists every Variable once under its first path in sorted order
    st = nnx.state(root)
    want = {p: _desc_ref(v) for p, v in vars0.items()}
    if _flat(st) != want:
      return False
    paths = list(SL.to_flat_state(st).paths)
    if paths != sorted(paths, key=lambda p: tuple(str(k) for k in p)) and \
       paths != sorted(paths):
      return False
    # iter_graph visits every node once
    it = list(nnx.iter_graph(root))
    mods = [id(x) for _, x in it if isinstance(x, nnx.Module)]
    vs = {id(x) for _, x in it if isinstance(x, nnx.Variable)}
    return (len(mods) == len(set(mods))
            and set(mods) == {i for p, i in id0.items() if c0[p][0] == 'mod'}
            and vs == {i for p, i in id0.items() if c0[p][0] == 'var'})
  if op == 1:
    # update: values change in place, identity kept, structure unchanged
    st = nnx.state(root, nnx.Variable)     # (array attributes inside lists are
    # documented as not updatable: 'Cannot set key on immutable node')
    new = SL.map_state(lambda p, v: v.replace(v.value + 100), st)
    nnx.update(root, new)
    c1, id1, vars1 = GR.canon(root)
    if id1 != id0 or set(c1) != set(c0):
      return False
    for p, d in c0.items():
      if d[0] == 'var':
        if c1[p] != (d[0], d[1], d[2], d[3] + 100, d[4]):
          return False
      elif c1[p] != d:
        return False
    return True
  if op == 2:
    g2 = nnx.clone(root)
    c2, id2, _ = GR.canon(g2)
    c1, id1, _ = GR.canon(root)
    if c2 != c0 or c1 != c0 or id1 != id0:
      return False
    for p, i in id2.items():
      if c2[p][0] in ('mod', 'var', 'list', 'dict', 'ref') and i in set(id0.values()):
        return False
    # mutating the clone leaves the original alone
    for p, v in GR.canon(g2)[2].items():
      if not isinstance(v, np.ndarray):
        v.value = -5
    return GR.canon(root)[0] == c0
  # pop removes exactly the selected Variables
  in_pytree = any(
      isinstance(v, nnx.BatchStat) for x in (o['L'], o['D'])
      for v in (x.values() if isinstance(x, dict) else x))
  try:
    popped = nnx.pop(root, nnx.BatchStat)
  except ValueError:
    # documented: a Variable sitting directly in a list/dict cannot be popped
    return in_pytree and any(c0[p][0] in ('list', 'dict') for p in c0
                             if id0[p] in (id(o['L']), id(o['D'])))
  want = {p: ('VariableState', type(v).__name__, v.value)
          for p, v in vars0.items() if isinstance(v, nnx.BatchStat)}
  if _flat(popped) != want:
    return False
  c1, id1, vars1 = GR.canon(root)
  if any(isinstance(v, nnx.BatchStat) for v in vars1.values()):
    return False
  for p, d in c1.items():
    if d[0] in ('mod',) and c0.get(p, (None,))[0] not in ('mod', 'ref'):
      return False
  remaining = {id(v) for v in vars1.values() if isinstance(v, nnx.Variable)}
  want_remaining = {id(v) for v in vars0.values()
                    if isinstance(v, nnx.Variable)
                    and not isinstance(v, nnx.BatchStat)}
  return remaining == want_remaining


EXPLANATION = (
    'C03: object graphs = fixed base (M0.child=M1, M0.items=list, M0.p=Param, '
    'M1.b=BatchStat, M0.table={2: Param, 10: Param}) + a symbolic list of extra edges between Modules, the list, '
    'a dict, Variables, a static and an array attribute (aliasing, self reference '
    'and cycles are values of that list); split/merge/state/update/clone/pop '
    'compared with an independent reference canonical form.')
ASSUMPTIONS = (
    'identity is compared for graph nodes (Modules) and Variables; lists/dicts are '
    'pytree nodes (tree semantics, sharing of the container itself is not part of '
    'the NNX contract); containers containing themselves are excluded',
    'jax.core.get_opaque_trace_state compat shim installed by the harness process',
)


def obligations(tier):
  quick = tier == 'quick'
  F = qualnames(G.flatten, G._graph_flatten, G.unflatten, G._graph_unflatten,
                G.split, G.merge, G.state, G.update, G.clone, G.pop, G.iter_graph,
                G._graph_pop, G._graph_update_dynamic, SL._split_state,
                G._merge_to_flat_state)
  nsrc, ndst = (3, 7) if quick else (4, 8)      # (4, 10) is ~3.5 h on 16 cores
  e = dict(s0=I(0, nsrc - 1), d0=I(0, ndst - 1), h0=B(), s1=I(0, nsrc - 1),
           d1=I(0, ndst - 1), h1=I(0, 0), s2=I(0, nsrc - 1),
           d2=I(0, ndst - 1), h2=I(0, 0))
  vs = dict(v0=I(-2, 2), v1=I(-2, 2), v2=I(-2, 2))
  nmax = 2           # thorough widens the node pools and merge orders instead
  return [
      Ob('split_merge_roundtrip', roundtrip,
         dict(n=I(0, nmax), **e, **vs, fi=I(0, len(FILTERS) - 1), perm=I(0, 5),
              nsrc=I(nsrc, nsrc), ndst=I(ndst, ndst),
              perm2only=I(1, 1) if quick else I(0, 0)),
         split=('n', 's0', 'd0', 'fi') if quick else ('n', 's0', 'd0', 'd1', 'fi'),
         timeout=600, funcs=F,
         bounds='base graph + <=%d extra edges over %d sources x %d targets, %d '
                'filter tuples, merge argument orders: %s' % (
                    nmax, nsrc, ndst, len(FILTERS),
                    'identity and reversed' if quick else 'all permutations')),
      Ob('state_update_clone_pop', state_update_clone_pop,
         dict(n=I(0, nmax), **e, **vs, op=I(0, 3), nsrc=I(nsrc, nsrc),
              ndst=I(ndst, ndst)),
         split=('n', 's0', 'd0', 'op') if quick else ('n', 's0', 'd0', 'd1', 'op'),
         timeout=600, funcs=F, bounds='same graphs; state / update / clone / pop'),
  ]
