#!/usr/bin/env python3
"""replaces the seeded-change table in DESIGN.md by the output of seedtable.py"""
import subprocess
t = subprocess.run(['python3', '/verif/tools/seedtable.py'], capture_output=True, text=True).stdout
s = open('/verif/DESIGN.md').read()
b, e = '<!-- seedtable:begin -->', '<!-- seedtable:end -->'
if 'SEEDED_TABLE_PLACEHOLDER' in s:
  s = s.replace('SEEDED_TABLE_PLACEHOLDER', b + '\n' + t + e)
else:
  i, j = s.index(b), s.index(e)
  s = s[:i] + b + '\n' + t + s[j:]
open('/verif/DESIGN.md', 'w').write(s)
print('table rows:', t.count('\n') - 2)
