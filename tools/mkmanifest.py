#!/usr/bin/env python3
"""Regenerates MANIFEST.json from the table below (kept valid at all times)."""
import json, os
V = os.path.dirname(os.path.dirname(os.path.abspath(__file__)))
PY = '/venv/bin/python'

CHECKS = {}   # pid -> dict(text, note, technique, design_ref)
NA = {}

def check(pid, text, note, technique, ref):
  CHECKS[pid] = dict(text=text, note=note, technique=technique, ref=ref)

XH = ('CrossHair symbolic execution (z3 decides every branch) of the real flax '
      'functions over bounded symbolic arguments, path tree exhausted per obligation; '
      'counterexamples replayed on untraced code')

check('C14',
      'Bounded symbolic check: Linen filter algebra (union/intersect/subtract/'
      'in_filter/is_filter_empty/group_collections) over every pair of syntactic '
      'forms (DenyList nesting <=3) with names drawn symbolically from a pool that '
      'contains every source literal, and NNX filterlib predicates / split APIs '
      'against an independent reference. Holds for every value inside the bounds; '
      'nothing outside is claimed.',
      'Finite name pool stands for all names (functions only ==/hash names); '
      'CrossHair+z3 trusted; bounds in evidence.', XH, 'DESIGN.md §4 C14')

check('C16',
      'Bounded symbolic check: flatten_dict/unflatten_dict/path_aware_map and '
      'nnx.traversals on every nested-dict shape of depth<=3 (empty dicts, '
      'separator/tuple keys, keep_empty_nodes, is_leaf depth cut) against an '
      'independent reference flattening; NNX State<->flat<->pure-dict conversions '
      'and split/filter/merge/diff set laws over all subsets of a prefix-free path '
      'set.',
      'Shapes beyond depth 3 / 2 keys per level and key strings other than the '
      'pool are outside the claim; CrossHair+z3 trusted.', XH, 'DESIGN.md §4 C16')
check('C19',
      'Bounded symbolic check: Partitioned/meta and nnx.spmd add_axis/remove_axis/'
      'get_partition_spec for ranks 0..3, every stacking axis incl. negative, two '
      'nested stacked axes, with numpy.stack as the oracle for where the axis '
      'lands; logical_to_mesh_axes against a reference and the invariant that no '
      'mesh axis serves two dimensions.',
      'Real lift.vmap/scan / nnx.vmap driving these calls is outside (JAX '
      'tracing); the call protocol (add after mapping, remove before) is read '
      'from lift.py.', XH, 'DESIGN.md §4 C19')

NA['C06'] = ('semantics implemented by jax.vmap / axes_scan jaxpr tracing / '
             'jax.random.split: no flax-side computation a solver can execute; '
             'stubbing them would stub the oracle (axis-name bookkeeping is decided '
             'under C19)')
NA['C07'] = ('equality with jax.vjp/jvp/grad numerics: both sides are JAX autodiff '
             'over XLA floats, nothing to encode for an SMT solver')

def main():
  checks = []
  for pid in sorted(CHECKS):
    c = CHECKS[pid]
    checks.append(dict(
        property_id=pid,
        quick_cmd='%s vf/run.py %s --tier quick' % (PY, pid),
        thorough_cmd='%s vf/run.py %s --tier thorough' % (PY, pid),
        evidence_file='evidence/%s.json' % pid,
        replay_cmd_template='%s vf/run.py --replay {path}' % PY,
        engine='vf',
        level_claimed=dict(category='other', text=c['text'], design_ref=c['ref']),
        level_note=c['note'], technique=c['technique']))
  props = [json.loads(l)['id'] for l in open(os.path.join(V, 'properties.jsonl'))]
  na = []
  for pid in props:
    if pid in CHECKS:
      continue
    na.append(dict(property_id=pid, reason=NA.get(
        pid, 'check not built yet in this revision (planned, see DESIGN.md §4)')))
  m = dict(
      version=1,
      setup_cmd='%s -c "import sys; sys.path.insert(0, \'/verif\'); from vf import env; env.ensure_venv()"' % PY,
      hooks=dict(guard='GOOGLE_FLAX_VERIF',
                 enable='no source hooks: checks import /repo\'s working tree and '
                        'rebind module globals from the harness process; '
                        'GOOGLE_FLAX_VERIF=1 is exported by vf/run.py for '
                        'completeness',
                 baseline_off_cmd='%s tools/baseline.py' % PY,
                 source_commits=[], add_only=True),
      engines=[dict(name='vf', path='vf/run.py', serves_properties=sorted(CHECKS),
                    kind_free_text='solver-based checking of the real code: '
                    'CrossHair (symbolic execution of Python with z3) path '
                    'exhaustion, AST->z3 translation, symbolic-tensor execution')],
      checks=checks,
      notes='See DESIGN.md. Exit codes: 0 held / 1 replayed violation / 3 harness '
            'error. known_findings.json lists recorded and fixed findings.',
      not_applicable=na)
  json.dump(m, open(os.path.join(V, 'MANIFEST.json'), 'w'), indent=1)
  print('wrote MANIFEST.json: %d checks, %d not_applicable' % (len(checks), len(na)))

if __name__ == '__main__':
  main()
