"""Helpers shared by harness modules."""
import ast
import inspect
import textwrap


def ast_string_literals(*funcs, max_len=40):
  """Every str literal occurring in the *current* source of the given functions
  (docstrings excluded) -- regenerated from /repo on every run, so a literal a later
  change introduces enters the name pool automatically."""
  out = []
  for f in funcs:
    try:
      src = textwrap.dedent(inspect.getsource(f))
    except (OSError, TypeError):
      continue
    tree = ast.parse(src)
    doc_ids = set()
    for node in ast.walk(tree):
      if isinstance(node, (ast.FunctionDef, ast.ClassDef, ast.Module,
                           ast.AsyncFunctionDef)):
        b = node.body
        if b and isinstance(b[0], ast.Expr) and isinstance(
            getattr(b[0], 'value', None), ast.Constant) and isinstance(
                b[0].value.value, str):
          doc_ids.add(id(b[0].value))
    for node in ast.walk(tree):
      if isinstance(node, ast.JoinedStr):
        for v in node.values:
          doc_ids.add(id(v))
      if isinstance(node, ast.Assert) and node.msg is not None:
        for sub in ast.walk(node.msg):
          doc_ids.add(id(sub))
    for node in ast.walk(tree):
      if (isinstance(node, ast.Constant) and isinstance(node.value, str)
          and id(node) not in doc_ids and 0 < len(node.value) <= max_len
          and node.value not in out):
        out.append(node.value)
  return out


def qualnames(*funcs):
  out = []
  for f in funcs:
    mod = getattr(f, '__module__', '?')
    out.append('%s.%s' % (mod, getattr(f, '__qualname__', repr(f))))
  return out
