"""Worker process: executes jobs (one partition of one obligation) from a pipe."""
import importlib
import json
import os
import sys
import time
import traceback


def _install_z3_timer():
  import z3
  stats = {'n': 0, 's': 0.0}
  orig = z3.Solver.check

  def check(self, *a, **k):
    t = time.perf_counter()
    try:
      return orig(self, *a, **k)
    finally:
      stats['n'] += 1
      stats['s'] += time.perf_counter() - t
  z3.Solver.check = check
  return stats


def load_ob(modname, obname, tier):
  mod = importlib.import_module(modname)
  for ob in mod.obligations(tier):
    if ob.name == obname:
      return ob
  raise KeyError(obname)


def region_pred(regions):
  if not regions:
    return None
  codes = [compile(r, '<region>', 'eval') for r in regions]

  def pred(kw):
    for c in codes:
      if eval(c, {}, dict(kw)):
        return True
    return False
  return pred


def run_job(job, zstats):
  from vf import xh
  ob = load_ob(job['module'], job['ob'], job['tier'])
  n0, s0 = zstats['n'], zstats['s']
  t0 = time.time()
  if ob.kind == 'xh':
    doms = {n: d for n, d in ob.domains.items() if n not in job['fixed']}
    pred = region_pred(job.get('regions'))
    fn = ob.fn
    if pred is not None:
      def fn(**kw):
        if pred(kw):
          raise xh.Reject()
        return ob.fn(**kw)
    res = xh.explore(fn, doms, job['fixed'], job['timeout'],
                     per_path_timeout=ob.per_path_timeout)
  else:
    kw = dict(job['fixed'])
    import inspect
    if 'regions' in inspect.signature(ob.fn).parameters:
      kw['regions'] = tuple(job.get('regions') or ())
    r = ob.fn(**kw)
    st = {'unsat': 'exhausted', 'sat': 'refuted', 'unknown': 'unknown'}.get(
        r.get('status'), r.get('status'))
    res = dict(status=st, paths=r.get('queries', 1), confirmed_paths=0,
               unknown_paths=0, ignored_paths=0,
               cex=(dict(args=r['cex'], why=r.get('detail', 'sat'))
                    if r.get('cex') is not None else None),
               witness=r.get('witness'), err=r.get('err'),
               detail=r.get('detail'), extra=r.get('extra'))
  res['queries'] = zstats['n'] - n0
  res['solver_s'] = round(zstats['s'] - s0, 4)
  res['wall_s'] = round(time.time() - t0, 3)
  return res


def main():
  from vf import env
  env.shim()
  import warnings
  warnings.simplefilter('ignore')
  zstats = _install_z3_timer()
  try:
    # warm the jit caches of the few real jax.random calls flax makes on concrete
    # keys: under the symbolic tracer they only work from a warm cache
    import jax
    k = jax.random.key(0)
    jax.random.fold_in(k, 1)
    jax.random.key_data(k)
    jax.random.split(k, 2)
  except Exception:
    pass
  rd = os.fdopen(int(sys.argv[1]), 'r')
  wr = os.fdopen(int(sys.argv[2]), 'w')
  for line in rd:
    job = json.loads(line)
    try:
      res = run_job(job, zstats)
    except BaseException as e:  # noqa
      res = dict(status='error', err=traceback.format_exc()[-3000:], paths=0,
                 queries=0, solver_s=0.0, wall_s=0.0)
    res['id'] = job['id']
    wr.write(json.dumps(res, default=repr) + '\n')
    wr.flush()


if __name__ == '__main__':
  main()
