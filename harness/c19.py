"""C19 -- partition metadata stays aligned with array axes."""
import numpy as np
import jax
from jax.sharding import PartitionSpec as P

from flax.core import meta
from flax.linen import spmd as LS
from flax.nnx import spmd as NS
from flax import nnx, errors

from harness.common import ast_string_literals, qualnames
from harness import c19_lift as CL
from flax.core import lift as L_
from vf.ob import Ob
from vf.xh import I, B, Reject, pick

PN = 'layers'
PN2 = 'batch'
NAMES = [None, 'x', 'y', 'z', PN]   # a dim may already carry the partition name
DIMS = (2, 3, 5)
STACK = 7
STACK2 = 11


def _names(r, n0, n1, n2):
  out = []
  for n in (n0, n1, n2)[:r]:
    out.append(NAMES[n])
  for n in (n0, n1, n2)[r:]:
    if n != 0:
      raise Reject()
  return tuple(out)


def _oracle(shape, names, new_shape, new_names, size, pname):
  """numpy says where the stacked axis went: the dim of size `size` carries pname,
  every other dim keeps the name it had (dims have pairwise distinct sizes)."""
  if len(new_names) != len(new_shape):
    return False
  by_size = dict(zip(shape, names))
  for s, n in zip(new_shape, new_names):
    if s == size:
      if n != pname:
        return False
    elif by_size[s] != n:
      return False
  return True


def _stack(arr, k, size):
  return np.stack([arr] * size, axis=k)


def linen_add_remove(r, n0, n1, n2, k):
  """Partitioned.add_axis puts the partition name where jnp.stack(axis=k) puts the
  new axis (negative k included); remove_axis undoes it; meta.add_axis/remove_axis
  over a tree; get_partition_spec == names."""
  names = _names(r, n0, n1, n2)
  if not (-r - 1 <= k <= r):
    raise Reject()
  shape = DIMS[:r]
  arr = np.zeros(shape)
  stacked = _stack(arr, k, STACK)
  boxed = meta.Partitioned(stacked, names=names)    # as lift: value already stacked
  raw = np.ones(stacked.shape)
  tree = {'p': boxed, 'raw': raw}
  out = meta.add_axis(tree, k, {meta.PARTITION_NAME: PN})
  b2 = out['p']
  if out['raw'] is not raw or not isinstance(b2, meta.Partitioned):
    return False
  if b2.value is not stacked:
    return False
  if not _oracle(shape, names, stacked.shape, b2.names, STACK, PN):
    return False
  spec = meta.get_partition_spec(out)
  if spec['p'] != P(*b2.names) or spec['raw'] != P():
    return False
  if b2.get_partition_spec() != P(*b2.names):
    return False
  # boxed untouched (functional update)
  if boxed.names != names:
    return False
  back = meta.remove_axis(out, k, {meta.PARTITION_NAME: PN})
  return back['p'].names == names and back['raw'] is raw


def linen_nested(r, n0, n1, n2, k1, k2):
  """scan inside vmap (and vice versa): two stacked axes, both names at the
  positions numpy gives; removing in reverse order restores the names."""
  names = _names(r, n0, n1, n2)
  if not (-r - 1 <= k1 <= r) or not (-r - 2 <= k2 <= r + 1):
    raise Reject()
  shape = DIMS[:r]
  s1 = _stack(np.zeros(shape), k1, STACK)
  s2 = _stack(s1, k2, STACK2)
  b = meta.Partitioned(s1, names=names).add_axis(k1, {meta.PARTITION_NAME: PN})
  b = b.replace_boxed(s2).add_axis(k2, {meta.PARTITION_NAME: PN2})
  by_size = dict(zip(shape, names))
  by_size[STACK] = PN
  by_size[STACK2] = PN2
  if len(b.names) != s2.ndim:
    return False
  for s, n in zip(s2.shape, b.names):
    if by_size[s] != n:
      return False
  c = b.remove_axis(k2, {meta.PARTITION_NAME: PN2})
  c = c.remove_axis(k1, {meta.PARTITION_NAME: PN})
  return c.names == names


def linen_short_names(r, m, n0, n1, k):
  """names shorter than the rank (trailing dims unnamed): add_axis at k>=0 pads
  with None so the partition name still lands on axis k"""
  if m > r or not (0 <= k <= r):
    raise Reject()
  names = tuple(NAMES[n] for n in (n0, n1)[:m])
  for n in (n0, n1)[m:]:
    if n != 0:
      raise Reject()
  b = meta.Partitioned(np.zeros(DIMS[:r]), names=names).add_axis(
      k, {meta.PARTITION_NAME: PN})
  full = list(names) + [None] * (r - m)
  full.insert(k, PN)
  got = list(b.names) + [None] * (r + 1 - len(b.names))
  return got == full and len(b.names) <= r + 1


def linen_missing_name(r, k):
  """no partition name in metadata_params -> error, never a silent guess"""
  if not (0 <= k <= r):
    raise Reject()
  b = meta.Partitioned(np.zeros(DIMS[:r]), names=(None,) * r)
  for fn in (b.add_axis, b.remove_axis):
    try:
      fn(k, {})
      return False
    except errors.PartitioningUnspecifiedError:
      pass
  return True


def linen_unbox(r, n0, n1, n2):
  """unbox returns the raw value itself (computing on it == computing on raw);
  replace_boxed keeps names"""
  names = _names(r, n0, n1, n2)
  arr = np.zeros(DIMS[:r])
  tree = {'p': meta.Partitioned(arr, names=names), 'q': arr}
  u = meta.unbox(tree)
  if u['p'] is not arr or u['q'] is not arr:
    return False
  new = np.ones(DIMS[:r])
  t2 = meta.replace_boxed(tree, {'p': new, 'q': new})
  return (t2['p'].value is new and t2['p'].names == names and t2['q'] is new
          and tree['p'].value is arr)


# ---------------------------------------------------------------- NNX
def _vs(value, sharding, **kw):
  return nnx.VariableState(nnx.Param, value, sharding=sharding, **kw)


def nnx_add_remove(r, n0, n1, n2, k, kind):
  """nnx.spmd.add_axis/remove_axis on VariableState trees (what nnx.vmap/scan
  transform_metadata call)."""
  names = _names(r, n0, n1, n2)
  if not (-r - 1 <= k <= r):
    raise Reject()
  shape = DIMS[:r]
  stacked = _stack(np.zeros(shape), k, STACK)
  hook_calls = []
  if kind == 0:
    v = _vs(stacked, names)
  elif kind == 1:
    v = _vs(stacked, names, on_add_axis=lambda s, i, n: hook_calls.append(('add', i, n)),
            on_remove_axis=lambda s, i, n: hook_calls.append(('rm', i, n)))
  else:
    v = nnx.VariableState(nnx.Param, stacked)       # no sharding metadata
  plain = nnx.VariableState(nnx.BatchStat, stacked)
  tree = {'v': v, 'plain': plain, 'raw': 3}
  out = NS.add_axis(tree, k, {NS.PARTITION_NAME: PN})
  if kind == 2:
    if hasattr(out['v'], 'sharding') and out['v'].sharding is not None:
      return False
    spec = NS.get_partition_spec(out)
    return spec['v'].value == P() and out['raw'] == 3
  sh = out['v'].sharding
  if not _oracle(shape, names, stacked.shape, sh, STACK, PN):
    return False
  if hasattr(out['plain'], 'sharding'):
    return False
  if kind == 1 and hook_calls != [('add', k, PN)]:
    return False
  spec = NS.get_partition_spec(out)
  want = P(*sh) if any(s is not None for s in sh) or sh else P()
  if spec['v'].value != P(*sh) and not (not sh and spec['v'].value == P()):
    return False
  back = NS.remove_axis(out, k, {NS.PARTITION_NAME: PN})
  if kind == 1 and hook_calls != [('add', k, PN), ('rm', k, PN)]:
    return False
  return back['v'].sharding == names


def nnx_missing_name(k):
  v = _vs(np.zeros((2, 3)), ('x', 'y'))
  for fn in (NS.add_axis, NS.remove_axis):
    try:
      fn({'v': v}, k, {})
      return False
    except ValueError:
      pass
  return v.sharding == ('x', 'y')


# ---------------------------------------------------------------- logical rules
LOG = ['batch', 'embed', 'heads', 'mlp']
MESH = ['X', 'Y', 'Z']


MVALS = [None, 'X', 'Y', ('X', 'Y'), ('Y',), 'Z', ('Y', 'Z')]
DPAT = [(), ('batch',), (None,), ('batch', 'embed'), ('batch', None),
        ('batch', 'batch'), ('batch', 'embed', 'heads'), ('batch', None, 'embed'),
        ('embed', 'batch', 'embed'), (None, None, 'heads')]
RLOG = ['batch', 'embed', 'mlp', 'heads']


def _flat(m):
  if m is None:
    return []
  if isinstance(m, tuple):
    return list(m)
  return [m]


def logical_rules(dp, nr, l0, l1, l2, m0, m1, m2):
  """logical_to_mesh_axes: rule priority, a mesh axis never used twice"""
  dims = list(DPAT[dp])
  named = [d for d in dims if d is not None]
  rules = []
  for l, m in ((l0, m0), (l1, m1), (l2, m2))[:nr]:
    rules.append((pick(RLOG, l), pick(MVALS, m)))
  for l, m in ((l0, m0), (l1, m1), (l2, m2))[nr:]:
    if l != 0 or m != 0:
      raise Reject()
  dup = len(set(named)) != len(named)
  try:
    got = LS.logical_to_mesh_axes(tuple(dims), tuple(rules))
  except ValueError:
    return dup
  if dup:
    return False
  # reference: first applicable rule wins, in priority order
  UN = object()
  res = [UN if d is not None else None for d in dims]
  used = set()
  for lname, mval in rules:
    if lname in dims:
      pos = dims.index(lname)
      if res[pos] is UN and not (set(_flat(mval)) & used):
        res[pos] = mval
        used |= set(_flat(mval))
  want = [None if x is UN else x for x in res]
  if got != P(*want):
    return False
  # the invariant itself: no mesh axis appears for two dimensions
  seen = []
  for x in got:
    for a in _flat(x):
      if a in seen:
        return False
      seen.append(a)
  return True


def logical_none(nr):
  """array_dim_names None -> None"""
  rules = tuple((RLOG[i], MESH[i % 3]) for i in range(nr))
  return LS.logical_to_mesh_axes(None, rules) is None


EXPLANATION = (
    'C19: Partitioned / nnx.spmd add_axis/remove_axis against numpy\'s own '
    'placement of a stacked axis (np.stack on arrays whose dims have pairwise '
    'distinct sizes), ranks 0..3, every stacking position incl. negative, nesting '
    'of two stacked axes; logical_to_mesh_axes against a reference and the '
    'no-mesh-axis-twice invariant.')
ASSUMPTIONS = (
    'names tuple has one entry per array dimension (the property\'s invariant) '
    'except in the explicit short-names obligation (k>=0 only)',
    'numpy.stack is the oracle for where a stacked axis lands (same convention as '
    'jax.vmap out_axes / scan axis)',
    'jax.core.get_opaque_trace_state compat shim installed by the harness process',
)


def obligations(tier):
  quick = tier == 'quick'
  nm = I(0, len(NAMES) - 1)
  F = qualnames(meta.Partitioned.add_axis, meta.Partitioned.remove_axis,
                meta.Partitioned.get_partition_spec, meta.Partitioned.unbox,
                meta.Partitioned.replace_boxed, meta.add_axis, meta.remove_axis,
                meta.unbox, meta.replace_boxed, meta.get_partition_spec)
  G = qualnames(NS.add_axis, NS.remove_axis, NS.get_partition_spec,
                nnx.VariableState.add_axis, nnx.VariableState.remove_axis)
  H = qualnames(LS._logical_to_mesh_axes, LS.logical_to_mesh_axes,
                LS._mesh_assignment_free)
  lg = I(0, 2 if quick else 3)
  ms = I(0, 3 if quick else 4)
  return [
      Ob('linen_add_remove', linen_add_remove,
         dict(r=I(0, 3), n0=nm, n1=nm, n2=nm, k=I(-4, 3)), split=('r', 'k'),
         timeout=300, funcs=F,
         bounds='rank 0..3, names from %r, stacking axis in [-rank-1, rank]' %
                (NAMES,)),
      Ob('linen_nested', linen_nested,
         dict(r=I(0, 2 if quick else 3), n0=nm, n1=nm, n2=nm, k1=I(-4, 3),
              k2=I(-5, 4)), split=('r', 'k1'), timeout=300, funcs=F,
         bounds='two nested stacked axes, all position pairs'),
      Ob('linen_short_names', linen_short_names,
         dict(r=I(0, 3), m=I(0, 2), n0=nm, n1=nm, k=I(0, 3)), split=('r', 'm', 'k'),
         timeout=300, funcs=F),
      Ob('linen_missing_name', linen_missing_name, dict(r=I(0, 3), k=I(0, 3)),
         timeout=120, funcs=F),
      Ob('linen_unbox', linen_unbox, dict(r=I(0, 3), n0=nm, n1=nm, n2=nm),
         timeout=300, funcs=F),
      Ob('nnx_add_remove', nnx_add_remove,
         dict(r=I(0, 3), n0=nm, n1=nm, n2=nm, k=I(-4, 3), kind=I(0, 2)),
         split=('r', 'kind', 'k'), timeout=300, funcs=G,
         bounds='rank 0..3, VariableState with sharding / with axis hooks / '
                'without sharding'),
      Ob('nnx_missing_name', nnx_missing_name, dict(k=I(-3, 2)), timeout=60,
         funcs=G),
      Ob('lift_vmap_scan_metadata', CL.lift_metadata,
         dict(tr=I(0, 1), ka=I(0, 4), kb=I(0, 4), mode_a=B(), mutable_b=B(),
              extra_in=B(), reverse=B()), split=('tr', 'ka'), timeout=600,
         funcs=qualnames(L_.vmap, L_.scan, L_.pack, meta.add_axis, meta.remove_axis,
                         meta.Partitioned.add_axis, meta.Partitioned.remove_axis),
         bounds='core lift.vmap / lift.scan, params [2,3] stacked along any of '
                '0,1,2,-1,-2 (plain / In / Out), stats [5] along 0,1,-1,-2, an extra '
                'In-only collection, init then apply (mutable or not), stack size 7',
         assumes=('jax.vmap and flax.core.axes_scan.scan replaced by numpy '
                  'slice / call / stack reference loops; lift.random.split stubbed',)),
      Ob('nnx_transform_metadata', CL.nnx_transform_metadata,
         dict(tr=I(0, 1), ka=I(0, 3), other=B(), order=B(), oa=I(0, 2)),
         split=('tr', 'ka'), timeout=300,
         funcs=qualnames(CL.C08.IT._update_variable_sharding_metadata,
                         CL.C08.IT.VmapFn.__call__, CL.C08.IT.ScanFn.__call__,
                         NS.add_axis, NS.remove_axis),
         bounds='nnx.vmap / nnx.scan, Param [2,4] stacked along 0,1,2,-1, BatchStat '
                'carried / shared or on axis 0, both orders of the StateAxes filters',
         assumes=('jax.vmap / lax.scan / jnp.moveaxis are reference loops on an '
                  'int-array stand-in',)),
      Ob('logical_rules', logical_rules,
         dict(dp=I(0, len(DPAT) - 1), nr=I(0, 3), l0=lg, l1=lg, l2=lg, m0=ms,
              m1=ms, m2=ms), split=('dp', 'nr', 'l0'), timeout=400, funcs=H,
         bounds='dimension-name patterns %r, <=3 rules over logical names %r and '
                'mesh values %r' % (DPAT, RLOG[:lg.hi + 1], MVALS[:ms.hi + 1])),
      Ob('logical_none', logical_none, dict(nr=I(0, 3)), timeout=60, funcs=H),
  ]
