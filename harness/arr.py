"""Small n-d array stand-in holding (symbolic) Python ints, plus reference
implementations of jax.vmap and of flax.core.axes_scan.scan (== lax.scan with
in/out axes) on such arrays and on numpy arrays: slice every leaf along its in-axis,
call the function once per index, stack the results along the out-axes.  Used where
flax's own collection / axis / rng plumbing around those primitives is the subject
(C06, C19)."""
import itertools

import numpy as np
import jax

from flax.core import axes_scan


class Arr:
  """unregistered class => a pytree LEAF for jax.tree_util"""

  def __init__(self, data, shape):
    self.data = list(data)
    self.shape = tuple(shape)
    n = 1
    for s in self.shape:
      n *= s
    assert n == len(self.data), (self.shape, len(self.data))

  ndim = property(lambda self: len(self.shape))

  @staticmethod
  def of(nested):
    if isinstance(nested, Arr):
      return nested
    if not isinstance(nested, (list, tuple)):
      return Arr([nested], ())
    subs = [Arr.of(x) for x in nested]
    return Arr([v for s in subs for v in s.data], (len(subs),) + (
        subs[0].shape if subs else ()))

  def _idx(self):
    return itertools.product(*[range(s) for s in self.shape])

  def at(self, idx):
    k = 0
    for i, s in zip(idx, self.shape):
      k = k * s + i
    return self.data[k]

  def take(self, i, axis):
    axis %= self.ndim
    shp = self.shape[:axis] + self.shape[axis + 1:]
    return Arr([self.at(ix[:axis] + (i,) + ix[axis:]) for ix in itertools.product(
        *[range(s) for s in shp])], shp)

  @staticmethod
  def stack(items, axis):
    items = [Arr.of(x) for x in items]
    base = items[0].shape
    axis %= len(base) + 1
    shp = base[:axis] + (len(items),) + base[axis:]
    return Arr([items[ix[axis]].at(ix[:axis] + ix[axis + 1:])
                for ix in itertools.product(*[range(s) for s in shp])], shp)

  def moveaxis(self, src, dst):
    src %= self.ndim
    dst %= self.ndim
    order = [d for d in range(self.ndim) if d != src]
    order.insert(dst, src)                  # order[j] = old axis placed at new j
    shp = tuple(self.shape[d] for d in order)
    out = []
    for ix in itertools.product(*[range(s) for s in shp]):
      old = [0] * self.ndim
      for j, d in enumerate(order):
        old[d] = ix[j]
      out.append(self.at(tuple(old)))
    return Arr(out, shp)

  def _bin(self, o, f):
    if isinstance(o, Arr):
      assert o.shape == self.shape
      return Arr([f(a, b) for a, b in zip(self.data, o.data)], self.shape)
    return Arr([f(a, o) for a in self.data], self.shape)

  def __add__(self, o): return self._bin(o, lambda a, b: a + b)
  __radd__ = __add__
  def __mul__(self, o): return self._bin(o, lambda a, b: a * b)
  __rmul__ = __mul__
  def __sub__(self, o): return self._bin(o, lambda a, b: a - b)

  def sum(self):
    t = 0
    for v in self.data:
      t = t + v
    return t

  def same(self, o):
    o = Arr.of(o)
    if self.shape != o.shape:
      return False
    for a, b in zip(self.data, o.data):
      if a != b:
        return False
    return True

  def __repr__(self):
    return 'Arr(%r, %r)' % (self.data, self.shape)


class Tok:
  """opaque rng token: split(key, n)[i] == Tok(key, i); equal iff same derivation"""

  def __init__(self, base, i):
    self.base, self.i = base, i

  def ident(self):
    b = self.base.ident() if isinstance(self.base, Tok) else ()
    return b + (self.i,)


class KeyStack:
  """stand-in for random.split(key, n)"""

  def __init__(self, key, n):
    self.key, self.shape = key, (n,)


def is_b(x):
  return x is None or x is axes_scan.broadcast


def prefix(pre, full):
  out = []

  def f(ax, sub):
    out.extend([ax] * len(jax.tree_util.tree_leaves(sub)))
  jax.tree_util.tree_map(f, pre, full, is_leaf=is_b)
  return out


def _take(x, i, a):
  if isinstance(x, KeyStack):
    return Tok(x.key, i)
  if isinstance(x, Arr):
    return x.take(i, a)
  return np.take(np.asarray(x), i, axis=a)


def _size(x, a):
  return x.shape[a]


def slice_all(leaves, axes, i):
  return [x if is_b(a) else _take(x, i, a) for x, a in zip(leaves, axes)]


def stack_all(per_iter, axes):
  out = []
  for j, a in enumerate(axes):
    col = [it[j] for it in per_iter]
    if is_b(a):
      out.append(col[0])
    elif any(isinstance(c, Arr) for c in col) or not isinstance(
        col[0], (np.ndarray, np.generic)):
      out.append(Arr.stack(col, a))
    else:
      out.append(np.stack([np.asarray(c) for c in col], axis=a))
  return out


def _length(leaves, axes, given):
  for x, a in zip(leaves, axes):
    if not is_b(a):
      return _size(x, a)
  return given


def ref_vmap(fn, in_axes=0, out_axes=0, axis_name=None, axis_size=None,
             spmd_axis_name=None):
  def g(*args):
    leaves, td = jax.tree_util.tree_flatten(args)
    axes = prefix(in_axes, args)
    n = _length(leaves, axes, axis_size)
    outs, otd = [], None
    for i in range(n):
      o = fn(*jax.tree_util.tree_unflatten(td, slice_all(leaves, axes, i)))
      ol, otd = jax.tree_util.tree_flatten(o)
      outs.append((ol, o))
    oaxes = prefix(out_axes, outs[0][1])
    return jax.tree_util.tree_unflatten(otd, stack_all([o[0] for o in outs], oaxes))
  return g


def ref_scan(fn, in_axes, out_axes, length=None, reverse=False, unroll=1,
             _split_transpose=False, check_constancy_invariants=True):
  def g(broadcast_in, init, *args):
    leaves, td = jax.tree_util.tree_flatten(args)
    axes = prefix(in_axes, args)
    n = _length(leaves, axes, length)
    carry, ys, otd, bout = init, [], None, broadcast_in
    first = True
    for i in (range(n - 1, -1, -1) if reverse else range(n)):
      xs = jax.tree_util.tree_unflatten(td, slice_all(leaves, axes, i))
      b, carry, y = fn(bout, carry, *xs)
      if first:
        # the broadcast pass: loop-independent outputs are computed once and are the
        # broadcast inputs of every iteration
        bout, first = b, False
      yl, otd = jax.tree_util.tree_flatten(y)
      ys.append((yl, y))
    if reverse:
      ys = ys[::-1]
    oaxes = prefix(out_axes, ys[0][1])
    return bout, carry, jax.tree_util.tree_unflatten(
        otd, stack_all([y[0] for y in ys], oaxes))
  return g


def ref_lax_scan(f, init, xs=None, length=None, reverse=False, unroll=1,
                 _split_transpose=False):
  """jax.lax.scan: the documented loop over the leading axis of every leaf of xs"""
  leaves, td = jax.tree_util.tree_flatten(xs)
  n = length if length is not None else leaves[0].shape[0]
  carry, ys = init, []
  for i in (range(n - 1, -1, -1) if reverse else range(n)):
    carry, y = f(carry, jax.tree_util.tree_unflatten(td, [_take(l, i, 0)
                                                          for l in leaves]))
    ys.append(y)
  if reverse:
    ys = ys[::-1]
  fl = [jax.tree_util.tree_flatten(y) for y in ys]
  stacked = stack_all([f_[0] for f_ in fl], [0] * len(fl[0][0]))
  return carry, jax.tree_util.tree_unflatten(fl[0][1], stacked)


def moveaxis(x, src, dst):
  if isinstance(x, Arr):
    return x.moveaxis(src, dst)
  return np.moveaxis(np.asarray(x), src, dst)
