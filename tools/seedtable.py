#!/usr/bin/env python3
"""prints the seeded-change table (markdown) from seeded/*/meta.json"""
import glob, json, os
rows = []
for d in sorted(glob.glob('/verif/seeded/*/')):
  mp = os.path.join(d, 'meta.json')
  if not os.path.exists(mp):
    continue
  m = json.load(open(mp))
  notes = ''
  np_ = os.path.join(d, 'notes.txt')
  if os.path.exists(np_):
    notes = ' '.join(open(np_).read().split())[:160]
  hist = m.get('history', [])
  first = hist[0]['detected'] if hist else m.get('detected')
  if m.get('strengthened_before_first_run'):
    first = '%s*' % first
  if m.get('outside_claim'):
    first = '%s (outside the claim)' % first
  rows.append((os.path.basename(d.rstrip('/')), m.get('demo_without_change_rc'),
               m.get('demo_with_change_rc'), first, m.get('detected'),
               (m.get('check_counterexamples') or [''])[0][:90], notes))
print('| change | demo clean/with | caught at first run | caught now | first counterexample | what it is |')
print('|---|---|---|---|---|---|')
for r in rows:
  print('| %s | %s / %s | %s | %s | `%s` | %s |' % (r[0], r[1], r[2], r[3], r[4], r[5].replace('|', '/'), r[6].replace('|', '/')))

print()
print('\\* the check had already been strengthened after reading the change description, before it was first run against it (round 1, third batch); from round 2 on the first run was taken on a frozen snapshot.')
