"""PrefetchIterator as a two-thread transition system generated from the AST of the
real class (regenerated from /repo on every run).  Each method is rewritten into a
generator that yields at every synchronisation event; a scheduler interleaves the
consumer (main thread) and the producer thread according to a sequence of choices
that CrossHair keeps symbolic.  Constructs outside the supported subset raise
Untranslatable (the obligation is then inconclusive, never silently passing)."""
import ast
import inspect
import textwrap

from flax.training import prefetch_iterator as PI


class Untranslatable(Exception):
  pass


class _Rewrite(ast.NodeTransformer):
  """rewrites one method body"""

  def __init__(self):
    self.lock_depth = 0

  def _ev(self, *parts):
    return ast.Expr(ast.Yield(ast.Tuple([ast.Constant(p) for p in parts],
                                         ast.Load())))

  def visit_With(self, node):
    if len(node.items) != 1 or ast.unparse(node.items[0].context_expr) != 'self._cond':
      raise Untranslatable('with over %s' % ast.unparse(node.items[0].context_expr))
    self.lock_depth += 1
    body = []
    for st in node.body:
      r = self.visit(st)
      body.extend(r if isinstance(r, list) else [r])
    self.lock_depth -= 1
    return [self._ev('acquire')] + body + [self._ev('release')]

  def visit_Return(self, node):
    out = []
    for _ in range(self.lock_depth):
      out.append(self._ev('release'))
    val = node.value if node.value is not None else ast.Constant(None)
    out.append(ast.Return(ast.Tuple([ast.Constant('return'), val], ast.Load())))
    return out

  def visit_Raise(self, node):
    out = []
    for _ in range(self.lock_depth):
      out.append(self._ev('release'))
    if node.exc is None:
      raise Untranslatable('bare raise')
    out.append(ast.Return(ast.Tuple([ast.Constant('raise'), node.exc], ast.Load())))
    return out

  def visit_Expr(self, node):
    src = ast.unparse(node.value)
    if src == 'self._cond.notify_all()':
      return self._ev('notify')
    if src.startswith('self._cond.wait_for('):
      pred = node.value.args[0]
      # while not pred(): yield wait
      call = ast.Call(pred, [], [])
      return ast.While(ast.UnaryOp(ast.Not(), call), [self._ev('wait')], [])
    if src == 'self._thread.start()':
      return self._ev('spawn')
    if src.startswith('warnings.warn('):
      return ast.Pass()
    if 'self._cond' in src or 'threading' in src:
      raise Untranslatable(src)
    return node

  def visit_Assign(self, node):
    src = ast.unparse(node.value)
    if src.startswith('threading.Condition('):
      return ast.Pass()
    if src.startswith('threading.Thread('):
      kw = {k.arg: ast.unparse(k.value) for k in node.value.keywords}
      if kw.get('target') != 'self._prefetch_loop':
        raise Untranslatable(src)
      return ast.Pass()
    if src.startswith('next(self._data_iter)'):
      # producer step: an observable, pre-emptible event
      return [self._ev('source'), node]
    if 'self._cond' in src or 'threading' in src:
      raise Untranslatable(src)
    return node

  def visit_FunctionDef(self, node):
    # nested helper predicates are kept verbatim
    return node

  def visit_Lambda(self, node):
    return node


def build_model():
  """returns a class with generator methods g___init__, g___next__,
  g__prefetch_loop translated from the current source"""
  src = textwrap.dedent(inspect.getsource(PI.PrefetchIterator))
  tree = ast.parse(src)
  cls = tree.body[0]
  out_methods = []
  for item in cls.body:
    if isinstance(item, ast.FunctionDef) and item.name in (
        '__init__', '__next__', '_prefetch_loop', 'close'):
      rw = _Rewrite()
      new_body = []
      for st in item.body:
        if (isinstance(st, ast.Expr) and isinstance(st.value, ast.Constant)
            and isinstance(st.value.value, str)):
          continue
        r = rw.visit(st)
        new_body.extend(r if isinstance(r, list) else [r])
      new_body.append(ast.Return(ast.Tuple([ast.Constant('return'),
                                            ast.Constant(None)], ast.Load())))
      fn = ast.FunctionDef('g_' + item.name, item.args, new_body, [], None,
                           lineno=item.lineno, col_offset=0)
      out_methods.append(fn)
  if len(out_methods) < 3:
    raise Untranslatable('methods missing')
  mod = ast.Module([ast.ClassDef('Model', [], [], out_methods, [])], [])
  text = ast.unparse(ast.fix_missing_locations(mod))   # regenerate clean positions
  ns = {'warnings': __import__('warnings')}
  exec(compile(text, '<prefetch_model>', 'exec'), ns)
  return ns['Model'], text


class Deadlock(Exception):
  pass


def run_schedule(Model, source, buffer_size, max_next, choices):
  """Runs the consumer program `it = PrefetchIterator(source, buffer_size);
  next(it) x max_next (stopping at StopIteration / error)` against the producer
  under the given schedule.  choices: iterator of booleans, consulted only when
  both threads are runnable (True = run the producer).  Returns (observations,
  trace)."""
  obj = Model()
  threads = {}          # name -> dict(gen, state)  state: run | wait | done
  lock = [None]
  trace = []
  obs = []

  def consumer():
    res = yield from obj.g___init__(source, buffer_size)
    if res[0] == 'raise':
      obs.append(('error', type(res[1]).__name__))
      return
    for _ in range(max_next):
      res = yield from obj.g___next__()
      if res[0] == 'return':
        obs.append(('item', res[1]))
      else:
        exc = res[1]
        if isinstance(exc, StopIteration):
          obs.append(('stop',))
        else:
          obs.append(('error', exc.args))
        return
  threads['main'] = dict(gen=consumer(), state='run', pending=None)

  def step(name):
    th = threads[name]
    try:
      ev = th['gen'].send(None) if th['pending'] is None else th['pending']
    except StopIteration:
      th['state'] = 'done'
      trace.append((name, 'end'))
      return
    th['pending'] = None
    kind = ev[0]
    if kind == 'acquire':
      if lock[0] is not None:
        th['pending'] = ev          # blocked: retry later
        th['state'] = 'blocked'
        return
      lock[0] = name
    elif kind == 'release':
      assert lock[0] == name, 'release without holding the lock'
      lock[0] = None
      for t in threads.values():
        if t['state'] == 'blocked':
          t['state'] = 'run'
    elif kind == 'wait':
      assert lock[0] == name
      lock[0] = None
      th['state'] = 'wait'
      th['pending'] = ('reacquire',)
      for t in threads.values():
        if t['state'] == 'blocked':
          t['state'] = 'run'
    elif kind == 'reacquire':
      if lock[0] is not None:
        th['pending'] = ev
        th['state'] = 'blocked'
        return
      lock[0] = name
    elif kind == 'notify':
      for t in threads.values():
        if t['state'] == 'wait':
          t['state'] = 'run'
    elif kind == 'spawn':
      def producer():
        yield from obj.g__prefetch_loop()
      threads['producer'] = dict(gen=producer(), state='run', pending=None)
    elif kind == 'source':
      pass
    trace.append((name, kind))
  budget = 400
  while budget:
    budget -= 1
    runnable = [n for n, t in threads.items() if t['state'] == 'run']
    if not runnable:
      if all(t['state'] == 'done' for n, t in threads.items() if n == 'main'):
        break
      if threads['main']['state'] == 'done':
        break
      raise Deadlock(trace)
    if threads['main']['state'] == 'done':
      break
    if len(runnable) == 2:
      pick_producer = next(choices)
      name = 'producer' if pick_producer else 'main'
    else:
      name = runnable[0]
    step(name)
  return obs, trace


# --------------------------------------------------------------------------
# Replay of a model schedule on the REAL class with real threads: every thread
# runs only when the recorded trace gives it the turn (one turn = run up to and
# including its next synchronisation event).
import threading as _threading
import time as _time


class ReplayTimeout(Exception):
  pass


class Gate:
  def __init__(self, turns):
    self.turns = list(turns)
    self.pos = 0
    self.cv = _threading.Condition()
    self.free = False

  def wait_turn(self, me):
    with self.cv:
      deadline = _time.time() + 10
      while not self.free and not (self.pos < len(self.turns)
                                   and self.turns[self.pos] == me):
        if self.pos >= len(self.turns):
          self.free = True
          self.cv.notify_all()
          break
        left = deadline - _time.time()
        if left <= 0:
          self.free = True
          self.cv.notify_all()
          raise ReplayTimeout('turn %d never came for %s' % (self.pos, me))
        self.cv.wait(left)

  def complete(self):
    with self.cv:
      self.pos += 1
      if self.pos >= len(self.turns):
        self.free = True
      self.cv.notify_all()


def replay_on_real_class(trace, make_source, buffer_size, max_next):
  """forces real threads through the recorded schedule; returns observations"""
  turns = [n for n, k in trace if k != 'end']
  gate = Gate(turns)
  names = {}

  def me():
    return names.get(_threading.get_ident(), 'main')

  def hook(effect=None):
    if effect is not None:
      effect()
    if not gate.free:
      gate.complete()
      gate.wait_turn(me())

  class GCond:
    def __init__(self):
      self.lock = _threading.Lock()

    def __enter__(self):
      hook(self.lock.acquire)
      return self

    def __exit__(self, *a):
      hook(self.lock.release)
      return False

    def wait_for(self, pred):
      while not pred():
        hook(self.lock.release)       # 'wait'
        hook(self.lock.acquire)       # 'reacquire'
        if gate.free:
          _time.sleep(0.001)
      return True

    def notify_all(self):
      hook()

  class GThread:
    def __init__(self, target=None, daemon=None):
      def run():
        names[_threading.get_ident()] = 'producer'
        try:
          gate.wait_turn('producer')
          target()
        except ReplayTimeout:
          pass
      self.t = _threading.Thread(target=run, daemon=True)

    def start(self):
      self.t.start()
      hook()                          # 'spawn'

  class GThreading:
    Condition = GCond
    Thread = GThread

  src = make_source()

  class GSource:
    def __next__(self):
      hook()                          # 'source'
      return next(src)

    def __iter__(self):
      return self
  saved = PI.threading
  PI.threading = GThreading
  obs = []
  try:
    import warnings
    warnings.simplefilter('ignore')
    gate.wait_turn('main')
    it = PI.PrefetchIterator(GSource(), buffer_size)
    for _ in range(max_next):
      try:
        obs.append(('item', next(it)))
      except StopIteration:
        obs.append(('stop',))
        break
      except Exception as e:  # noqa
        obs.append(('error', e.args))
        break
  finally:
    PI.threading = saved
    gate.free = True
    with gate.cv:
      gate.cv.notify_all()
  return obs
