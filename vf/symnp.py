"""jnp / lax / jax.nn stand-ins over vf.sym.A (subset used by flax layers).
Validated op by op against real jax on random concrete inputs (see validate())."""
import itertools
import math

import numpy as np
import z3

from vf.sym import A, S, _num, _z, uf, sqrt as _sqrt


def _a(x):
  return x if isinstance(x, A) else A.of(x)


def _shape_arg(shape):
  if isinstance(shape, (int, np.integer)):
    return (int(shape),)
  return tuple(int(s) for s in shape)


class _DType(str):
  pass


class _Finfo:
  # "minus infinity" stand-in for masking: a symbolic very negative constant
  def __init__(self):
    self.min = S(z3.Real('FINFO_MIN'))
    self.max = S(z3.Real('FINFO_MAX'))
    self.eps = S(z3.Real('FINFO_EPS'))


class JNP:
  float32 = _DType('float32')
  float64 = _DType('float64')
  float16 = _DType('float16')
  bfloat16 = _DType('bfloat16')
  int32 = _DType('int32')
  int64 = _DType('int64')
  int8 = _DType('int8')
  uint8 = _DType('uint8')
  uint32 = _DType('uint32')
  bool_ = _DType('bool')
  inexact = 'inexact'
  integer = 'integer'
  floating = 'floating'
  ndarray = A
  inf = S(z3.Real('INF'))
  newaxis = None

  # ---- dtype helpers
  @staticmethod
  def issubdtype(dt, kind):
    dt = str(getattr(dt, 'name', dt))
    if kind in ('inexact', 'floating') or kind is JNP.inexact:
      return dt.startswith('float') or dt in ('real', 'bfloat16')
    if kind == 'integer':
      return dt.startswith('int') or dt.startswith('uint')
    return False

  @staticmethod
  def result_type(*args):
    return JNP.float32

  @staticmethod
  def promote_types(a, b):
    return JNP.float32

  @staticmethod
  def iscomplexobj(x):
    return False

  @staticmethod
  def finfo(dt):
    return _Finfo()

  @staticmethod
  def dtype(x):
    return JNP.float32

  # ---- creation
  @staticmethod
  def asarray(x, dtype=None):
    return _a(x)

  array = asarray

  @staticmethod
  def zeros(shape, dtype=None):
    shape = _shape_arg(shape)
    return A([S(0)] * int(np.prod(shape)), shape)

  @staticmethod
  def ones(shape, dtype=None):
    shape = _shape_arg(shape)
    return A([S(1)] * int(np.prod(shape)), shape)

  @staticmethod
  def full(shape, v, dtype=None):
    shape = _shape_arg(shape)
    v = v if isinstance(v, S) else S(v)
    return A([v] * int(np.prod(shape)), shape)

  @staticmethod
  def zeros_like(x, dtype=None):
    return JNP.zeros(_a(x).shape)

  @staticmethod
  def ones_like(x, dtype=None):
    return JNP.ones(_a(x).shape)

  @staticmethod
  def arange(start, stop=None, step=None, dtype=None):
    if isinstance(stop, (str, type(None))) and not isinstance(stop, int):
      vals = list(range(int(start)))
    else:
      vals = list(range(int(start), int(stop), int(step) if step else 1))
    return A([S(i) for i in vals], (len(vals),), 'int32')

  # ---- shape
  @staticmethod
  def shape(x):
    return _a(x).shape

  @staticmethod
  def ndim(x):
    return _a(x).ndim

  @staticmethod
  def reshape(x, shape):
    return _a(x).reshape(shape)

  @staticmethod
  def transpose(x, axes=None):
    return _a(x).transpose(*([axes] if axes is not None else []))

  @staticmethod
  def swapaxes(x, a, b):
    x = _a(x)
    ax = list(range(x.ndim))
    ax[a], ax[b] = ax[b], ax[a]
    return x.transpose(ax)

  @staticmethod
  def moveaxis(x, src, dst):
    x = _a(x)
    ax = [i for i in range(x.ndim) if i != src % x.ndim]
    ax.insert(dst % x.ndim, src % x.ndim)
    return x.transpose(ax)

  @staticmethod
  def expand_dims(x, axis):
    x = _a(x)
    axes = (axis,) if isinstance(axis, (int, np.integer)) else tuple(axis)
    shape = list(x.shape)
    n = x.ndim + len(axes)
    for ax in sorted(a % n for a in axes):
      shape.insert(ax, 1)
    return x.reshape(shape)

  @staticmethod
  def squeeze(x, axis=None):
    x = _a(x)
    if axis is None:
      shape = [s for s in x.shape if s != 1]
    else:
      axes = (axis,) if isinstance(axis, (int, np.integer)) else tuple(axis)
      axes = [a % x.ndim for a in axes]
      shape = [s for i, s in enumerate(x.shape) if i not in axes]
    return x.reshape(shape)

  @staticmethod
  def broadcast_to(x, shape):
    x = _a(x)
    shape = _shape_arg(shape)
    from vf.sym import _bidx
    return A([x.at(_bidx(idx, x.shape, shape)) for idx in
              itertools.product(*[range(s) for s in shape])], shape, x.dtype)

  @staticmethod
  def concatenate(xs, axis=0):
    xs = [_a(x) for x in xs]
    axis = axis % xs[0].ndim
    shape = list(xs[0].shape)
    shape[axis] = sum(x.shape[axis] for x in xs)
    out = []
    for idx in itertools.product(*[range(s) for s in shape]):
      k = idx[axis]
      for x in xs:
        if k < x.shape[axis]:
          src = list(idx)
          src[axis] = k
          out.append(x.at(src))
          break
        k -= x.shape[axis]
    return A(out, shape)

  @staticmethod
  def stack(xs, axis=0):
    xs = [JNP.expand_dims(_a(x), axis) for x in xs]
    return JNP.concatenate(xs, axis)

  @staticmethod
  def split(x, n, axis=0):
    x = _a(x)
    axis = axis % x.ndim
    if isinstance(n, (int, np.integer)):
      size = x.shape[axis] // n
      bounds = [(i * size, (i + 1) * size) for i in range(n)]
    else:
      cuts = [0] + [int(c) for c in n] + [x.shape[axis]]
      bounds = list(zip(cuts[:-1], cuts[1:]))
    out = []
    for lo, hi in bounds:
      key = [slice(None)] * x.ndim
      key[axis] = slice(lo, hi)
      out.append(x[tuple(key)])
    return out

  @staticmethod
  def flip(x, axis):
    x = _a(x)
    key = [slice(None)] * x.ndim
    key[axis] = slice(None, None, -1)
    return x[tuple(key)]

  @staticmethod
  def repeat(x, n, axis=None):
    x = _a(x)
    axis = axis % x.ndim
    parts = []
    for i in range(x.shape[axis]):
      key = [slice(None)] * x.ndim
      key[axis] = slice(i, i + 1)
      parts += [x[tuple(key)]] * n
    return JNP.concatenate(parts, axis)

  @staticmethod
  def tril(x):
    x = _a(x)
    out = []
    for idx in x._idx():
      out.append(x.at(idx) if idx[-1] <= idx[-2] else S(0))
    return A(out, x.shape)

  @staticmethod
  def pad(x, pads, mode='constant', constant_values=0):
    x = _a(x)
    pads = [tuple(p) for p in pads]
    shape = [s + lo + hi for s, (lo, hi) in zip(x.shape, pads)]
    out = []
    for idx in itertools.product(*[range(s) for s in shape]):
      src = []
      ok = True
      for i, (k, (lo, hi)) in enumerate(zip(idx, pads)):
        j = k - lo
        n = x.shape[i]
        if 0 <= j < n:
          src.append(j)
        elif mode == 'wrap':
          src.append(j % n)
        elif mode == 'reflect':
          period = 2 * (n - 1) if n > 1 else 1
          j = j % period if n > 1 else 0
          src.append(j if j < n else period - j)
        else:
          ok = False
          break
      out.append(x.at(src) if ok else S(constant_values))
    return A(out, shape)

  # ---- elementwise / reductions
  @staticmethod
  def where(c, a, b):
    c, a, b = _a(c), _a(a), _a(b)
    shape = np.broadcast_shapes(c.shape, a.shape, b.shape)
    from vf.sym import _bidx
    out = []
    for idx in itertools.product(*[range(s) for s in shape]):
      cc = c.at(_bidx(idx, c.shape, shape)).t
      if not z3.is_bool(cc):
        cc = _num(cc) != 0
      out.append(S(z3.If(cc, _num(a.at(_bidx(idx, a.shape, shape)).t),
                         _num(b.at(_bidx(idx, b.shape, shape)).t))))
    return A(out, shape)

  @staticmethod
  def maximum(a, b):
    return JNP.where(_a(a) > _a(b), a, b)

  @staticmethod
  def minimum(a, b):
    return JNP.where(_a(a) < _a(b), a, b)

  @staticmethod
  def logical_and(a, b):
    return _a(a)._bin(_a(b), lambda x, y: S(z3.And(_b(x), _b(y))))

  @staticmethod
  def logical_or(a, b):
    return _a(a)._bin(_a(b), lambda x, y: S(z3.Or(_b(x), _b(y))))

  @staticmethod
  def logical_not(a):
    a = _a(a)
    return A([S(z3.Not(_b(x))) for x in a.data], a.shape)

  @staticmethod
  def greater_equal(a, b):
    return _a(a) >= _a(b)

  @staticmethod
  def multiply(a, b):
    return _a(a) * _a(b)

  @staticmethod
  def mean(x, axis=None, keepdims=False, where=None, dtype=None):
    return _a(x).mean(axis, keepdims, where)

  @staticmethod
  def sum(x, axis=None, keepdims=False, where=None, dtype=None):
    return _a(x).sum(axis, keepdims, where)

  @staticmethod
  def sqrt(x):
    x = _a(x)
    r = A([_sqrt(v) for v in x.data], x.shape)
    return r if r.shape != () else r.data[0]

  @staticmethod
  def _ufmap(name, x):
    x = _a(x)
    r = A([uf(name, v) for v in x.data], x.shape)
    return r

  @staticmethod
  def tanh(x): return JNP._ufmap('tanh', x)

  @staticmethod
  def exp(x): return JNP._ufmap('exp', x)

  # ---- contractions
  @staticmethod
  def dot(a, b, precision=None):
    a, b = _a(a), _a(b)
    return LAX.dot_general(a, b, (((a.ndim - 1,), (max(b.ndim - 2, 0),)), ((), ())))

  @staticmethod
  def matmul(a, b, precision=None):
    return JNP.dot(a, b)

  @staticmethod
  def einsum(spec, *ops, precision=None, **kw):
    ops = [_a(o) for o in ops]
    spec = spec.replace(' ', '')
    ins, out = spec.split('->') if '->' in spec else (spec, None)
    ins = ins.split(',')
    # ellipsis support: expand '...' to fresh letters
    used = set(spec) - set('.,->')
    fresh = [c for c in 'ABCDEFGHIJKLMNOPQRSTUVWXYZ' if c not in used]
    ell = ''
    for k, (term, op) in enumerate(zip(ins, ops)):
      if '...' in term:
        n = op.ndim - (len(term) - 3)
        ell = ''.join(fresh[:n]) if len(ell) < n else ell
        ins[k] = term.replace('...', ell[len(ell) - n:])
    if out is None:
      cnt = {}
      for t in ins:
        for c in t:
          cnt[c] = cnt.get(c, 0) + 1
      out = ell + ''.join(sorted(c for c in cnt if cnt[c] == 1 and c not in ell))
    else:
      out = out.replace('...', ell)
    dims = {}
    for t, op in zip(ins, ops):
      for c, s in zip(t, op.shape):
        dims[c] = s
    red = [c for c in dims if c not in out]
    res = []
    for oidx in itertools.product(*[range(dims[c]) for c in out]):
      env = dict(zip(out, oidx))
      acc = S(0)
      for ridx in itertools.product(*[range(dims[c]) for c in red]):
        env.update(zip(red, ridx))
        term = S(1)
        for t, op in zip(ins, ops):
          term = term * op.at([env[c] for c in t])
        acc = acc + term
      res.append(acc)
    return A(res, [dims[c] for c in out])

  @staticmethod
  def take(x, idx, axis=0):
    x, idx = _a(x), _a(idx)
    axis = axis % x.ndim
    assert axis == 0
    n = x.shape[0]
    rest = x.shape[1:]
    out = []
    for i in idx.data:
      for r in itertools.product(*[range(s) for s in rest]):
        v = _num(x.at((n - 1,) + r).t)
        for k in range(n - 2, -1, -1):
          v = z3.If(_num(i.t) == k, _num(x.at((k,) + r).t), v)
        out.append(S(v))
    return A(out, idx.shape + rest)

  @staticmethod
  def take_along_axis(x, idx, axis):
    x, idx = _a(x), _a(idx)
    axis = axis % x.ndim
    from vf.sym import _bidx
    # numpy semantics: idx and x broadcast against each other off the axis
    oshape = tuple(idx.shape[d] if d == axis else max(idx.shape[d], x.shape[d])
                   for d in range(x.ndim))
    n = x.shape[axis]
    out = []
    for pos in itertools.product(*[range(s_) for s_ in oshape]):
      i = idx.at(_bidx(pos, idx.shape, oshape))

      def src(k):
        p = list(pos)
        p[axis] = k
        return x.at(tuple(0 if x.shape[d] == 1 else p[d] for d in range(x.ndim)))
      v = _num(src(n - 1).t)
      for k in range(n - 2, -1, -1):
        v = z3.If(_num(i.t) == k, _num(src(k).t), v)
      out.append(S(v))
    return A(out, oshape)


def _b(x):
  t = x.t if isinstance(x, S) else _z(x)
  return t if z3.is_bool(t) else _num(t) != 0


import jax.lax as _real_lax


class LAX:
  class Precision:
    DEFAULT = HIGH = HIGHEST = None
  ConvDimensionNumbers = _real_lax.ConvDimensionNumbers

  @staticmethod
  def dtype(x):
    return JNP.float32

  @staticmethod
  def stop_gradient(x):
    return x

  @staticmethod
  def square(x):
    x = _a(x)
    return x * x

  @staticmethod
  def real(x): return x

  @staticmethod
  def rsqrt(x):
    x = _a(x)
    out = []
    for v in x.data:
      r = uf('rsqrt', v)
      from vf.sym import SQRT_AXIOMS
      SQRT_AXIOMS.append(z3.Implies(_num(v.t) > 0, z3.And(
          r.t * r.t * _num(v.t) == 1, r.t > 0)))
      out.append(r)
    res = A(out, x.shape)
    return res

  @staticmethod
  def select(c, a, b):
    return JNP.where(c, a, b)

  @staticmethod
  def add(a, b): return a + b

  @staticmethod
  def max(a, b):
    return S(z3.If(_num(_z(a)) > _num(_z(b)), _num(_z(a)), _num(_z(b))))

  @staticmethod
  def min(a, b):
    return S(z3.If(_num(_z(a)) < _num(_z(b)), _num(_z(a)), _num(_z(b))))

  @staticmethod
  def dot_general(a, b, dimension_numbers, precision=None,
                  preferred_element_type=None):
    a, b = _a(a), _a(b)
    (ca, cb), (ba, bb) = dimension_numbers
    ca, cb, ba, bb = list(ca), list(cb), list(ba), list(bb)
    fa = [i for i in range(a.ndim) if i not in ca and i not in ba]
    fb = [i for i in range(b.ndim) if i not in cb and i not in bb]
    bshape = [a.shape[i] for i in ba]
    out_shape = bshape + [a.shape[i] for i in fa] + [b.shape[i] for i in fb]
    cshape = [a.shape[i] for i in ca]
    out = []
    for idx in itertools.product(*[range(s) for s in out_shape]):
      bi = idx[:len(ba)]
      ai = idx[len(ba):len(ba) + len(fa)]
      bj = idx[len(ba) + len(fa):]
      acc = S(0)
      for cidx in itertools.product(*[range(s) for s in cshape]):
        pa = [0] * a.ndim
        pb = [0] * b.ndim
        for k, i in enumerate(ba): pa[i] = bi[k]
        for k, i in enumerate(bb): pb[i] = bi[k]
        for k, i in enumerate(fa): pa[i] = ai[k]
        for k, i in enumerate(fb): pb[i] = bj[k]
        for k, i in enumerate(ca): pa[i] = cidx[k]
        for k, i in enumerate(cb): pb[i] = cidx[k]
        acc = acc + a.at(pa) * b.at(pb)
      out.append(acc)
    return A(out, out_shape)

  @staticmethod
  def reduce_window(x, init, op, dims, strides, padding, base_dilation=None,
                    window_dilation=None):
    x = _a(x)
    nd = x.ndim
    if isinstance(padding, str):
      pads = []
      for i in range(nd):
        if padding == 'VALID':
          pads.append((0, 0))
        else:
          out = -(-x.shape[i] // strides[i])
          tot = max((out - 1) * strides[i] + dims[i] - x.shape[i], 0)
          pads.append((tot // 2, tot - tot // 2))
    else:
      pads = [tuple(p) for p in padding]
    out_shape = [(x.shape[i] + pads[i][0] + pads[i][1] - dims[i]) // strides[i] + 1
                 for i in range(nd)]
    res = []
    init = init if isinstance(init, S) else S(init)
    for oidx in itertools.product(*[range(s) for s in out_shape]):
      acc = init
      for w in itertools.product(*[range(d) for d in dims]):
        src = [oidx[i] * strides[i] + w[i] - pads[i][0] for i in range(nd)]
        if all(0 <= src[i] < x.shape[i] for i in range(nd)):
          acc = op(acc, x.at(src))
        else:
          acc = op(acc, init)
      res.append(acc)
    return A(res, out_shape)

  @staticmethod
  def conv_general_dilated(lhs, rhs, window_strides, padding, lhs_dilation=None,
                           rhs_dilation=None, dimension_numbers=None,
                           feature_group_count=1, batch_group_count=1,
                           precision=None, preferred_element_type=None):
    lhs, rhs = _a(lhs), _a(rhs)
    nd = lhs.ndim - 2
    if dimension_numbers is None:
      lspec = (0, 1) + tuple(range(2, nd + 2))
      rspec = lspec
      ospec = lspec
    else:
      lspec, rspec, ospec = (dimension_numbers.lhs_spec, dimension_numbers.rhs_spec,
                             dimension_numbers.out_spec)
    L = lhs.transpose(lspec)       # N C spatial
    R = rhs.transpose(rspec)       # O I spatial
    N, C = L.shape[:2]
    O, Ig = R.shape[:2]
    sp = L.shape[2:]
    k = R.shape[2:]
    ld = tuple(lhs_dilation) if lhs_dilation else (1,) * nd
    rd = tuple(rhs_dilation) if rhs_dilation else (1,) * nd
    st = tuple(window_strides)
    dil_in = [(s - 1) * d + 1 if s > 0 else 0 for s, d in zip(sp, ld)]
    dil_k = [(s - 1) * d + 1 for s, d in zip(k, rd)]
    if isinstance(padding, str):
      pads = []
      for i in range(nd):
        if padding.upper() == 'VALID':
          pads.append((0, 0))
        else:
          out = -(-dil_in[i] // st[i])
          tot = max((out - 1) * st[i] + dil_k[i] - dil_in[i], 0)
          pads.append((tot // 2, tot - tot // 2))
    else:
      pads = [tuple(p) for p in padding]
    out_sp = [(dil_in[i] + pads[i][0] + pads[i][1] - dil_k[i]) // st[i] + 1
              for i in range(nd)]
    G = feature_group_count
    assert C == Ig * G and O % G == 0
    og = O // G
    res = []
    for n in range(N):
      for o in range(O):
        g = o // og
        for oidx in itertools.product(*[range(s) for s in out_sp]):
          acc = S(0)
          for ci in range(Ig):
            for w in itertools.product(*[range(s) for s in k]):
              ok = True
              src = []
              for i in range(nd):
                p = oidx[i] * st[i] + w[i] * rd[i] - pads[i][0]
                if p < 0 or p >= dil_in[i] or p % ld[i] != 0:
                  ok = False
                  break
                src.append(p // ld[i])
              if ok:
                acc = acc + L.at([n, g * Ig + ci] + src) * R.at([o, ci] + list(w))
          res.append(acc)
    out = A(res, [N, O] + out_sp)
    # back to out_spec layout: ospec[i] = position in the output of canonical dim i
    inv = [0] * (nd + 2)
    for canon, pos in enumerate(ospec):
      inv[pos] = canon
    return out.transpose(inv)

  @staticmethod
  def conv_general_dilated_local(lhs, rhs, window_strides, padding, filter_shape,
                                 lhs_dilation=None, rhs_dilation=None,
                                 dimension_numbers=None, precision=None):
    """unshared convolution (documented semantics): out[n, o, f] = sum over input
    channel c and filter tap w of x[n, o*stride + w*rhs_dil - lo, c] *
    rhs[o, c * prod(filter) + flat(w), f]; rhs: (out spatial..., C*prod(filter), F)"""
    lhs, rhs = _a(lhs), _a(rhs)
    nd = lhs.ndim - 2
    lspec, rspec, ospec = (dimension_numbers.lhs_spec, dimension_numbers.rhs_spec,
                           dimension_numbers.out_spec)
    assert tuple(lspec) == (0, nd + 1) + tuple(range(1, nd + 1)), 'N..C layout only'
    N, C = lhs.shape[0], lhs.shape[-1]
    sp = lhs.shape[1:-1]
    k = tuple(filter_shape)
    ld = tuple(lhs_dilation) if lhs_dilation else (1,) * nd
    rd = tuple(rhs_dilation) if rhs_dilation else (1,) * nd
    st = tuple(window_strides)
    dil_in = [(s_ - 1) * d + 1 for s_, d in zip(sp, ld)]
    dil_k = [(s_ - 1) * d + 1 for s_, d in zip(k, rd)]
    if isinstance(padding, str):
      pads = []
      for i in range(nd):
        if padding.upper() == 'VALID':
          pads.append((0, 0))
        else:
          out = -(-dil_in[i] // st[i])
          tot = max((out - 1) * st[i] + dil_k[i] - dil_in[i], 0)
          pads.append((tot // 2, tot - tot // 2))
    else:
      pads = [tuple(p) for p in padding]
    out_sp = [(dil_in[i] + pads[i][0] + pads[i][1] - dil_k[i]) // st[i] + 1
              for i in range(nd)]
    F = rhs.shape[-1]
    K = 1
    for kk in k:
      K *= kk
    assert tuple(rhs.shape) == tuple(out_sp) + (C * K, F), (rhs.shape, out_sp, C, K, F)
    res = []
    for n in range(N):
      for oidx in itertools.product(*[range(s_) for s_ in out_sp]):
        for f in range(F):
          acc = S(0)
          for c in range(C):
            for wi, w in enumerate(itertools.product(*[range(s_) for s_ in k])):
              src, ok = [], True
              for i in range(nd):
                p = oidx[i] * st[i] + w[i] * rd[i] - pads[i][0]
                if p < 0 or p >= dil_in[i] or p % ld[i] != 0:
                  ok = False
                  break
                src.append(p // ld[i])
              if ok:
                acc = acc + lhs.at([n] + src + [c]) * rhs.at(list(oidx) + [c * K + wi, f])
          res.append(acc)
    return A(res, [N] + out_sp + [F])

  @staticmethod
  def dynamic_update_slice(operand, update, start_indices):
    """start indices must be concrete here; out-of-range starts are clamped (lax)"""
    operand, update = _a(operand), _a(update)
    starts = []
    for d, ix in enumerate(start_indices):
      if isinstance(ix, A):
        ix = ix.data[0]
      if isinstance(ix, S):
        v = z3.simplify(ix.t)
        if not (z3.is_int_value(v) or z3.is_rational_value(v)):
          raise NotImplementedError('symbolic start index')
        ix = v.as_long() if z3.is_int_value(v) else int(v.as_fraction())
      ix = int(ix)
      starts.append(max(0, min(ix, operand.shape[d] - update.shape[d])))
    out = list(operand.data)
    strides = []
    acc = 1
    for sdim in reversed(operand.shape):
      strides.insert(0, acc)
      acc *= sdim
    for idx in itertools.product(*[range(sd) for sd in update.shape]):
      k = sum((i + st) * stv for i, st, stv in zip(idx, starts, strides))
      out[k] = update.at(idx)
    return A(out, operand.shape)

  @staticmethod
  def conv_transpose(lhs, rhs, strides, padding, rhs_dilation=None,
                     dimension_numbers=None, transpose_kernel=False, precision=None,
                     preferred_element_type=None, use_consistent_padding=False):
    """jax.lax.conv_transpose (documented semantics): a stride-1 convolution of the
    input dilated by `strides`, padded with the transpose of the forward padding;
    default layout N..C / ..IO / N..C"""
    lhs, rhs = _a(lhs), _a(rhs)
    nd = lhs.ndim - 2
    assert dimension_numbers is None
    rd = tuple(rhs_dilation) if rhs_dilation else (1,) * nd
    if isinstance(padding, str):
      pads = []
      for i in range(nd):
        k = (rhs.shape[i] - 1) * rd[i] + 1
        s = strides[i]
        if padding == 'SAME':
          pad_len = k + s - 2
          pad_a = k - 1 if s > k - 1 else -(-pad_len // 2)
        elif padding == 'VALID':
          pad_len = k + s - 2 + max(k - s, 0)
          pad_a = k - 1
        else:
          raise ValueError(padding)
        pads.append((pad_a, pad_len - pad_a))
    else:
      pads = [tuple(p) for p in padding]
    if transpose_kernel:
      for i in range(nd):
        rhs = JNP.flip(rhs, i)
      rhs = JNP.swapaxes(rhs, nd, nd + 1)

    class _DN:
      lhs_spec = (0, nd + 1) + tuple(range(1, nd + 1))
      rhs_spec = (nd + 1, nd) + tuple(range(nd))
      out_spec = (0, nd + 1) + tuple(range(1, nd + 1))
    return LAX.conv_general_dilated(lhs, rhs, (1,) * nd, pads, tuple(strides), rd, _DN)


class NN:
  @staticmethod
  def softmax(x, axis=-1, where=None):
    x = _a(x)
    e = JNP.exp(x)
    if where is not None:
      e = JNP.where(where, e, 0)
    return e / e.sum(axis=axis, keepdims=True)

  @staticmethod
  def sigmoid(x): return JNP._ufmap('sigmoid', x)

  @staticmethod
  def tanh(x): return JNP._ufmap('tanh', x)

  @staticmethod
  def relu(x): return JNP.maximum(x, 0)


def validate(seed=0, n=3):
  """shim vs real jax on random concrete inputs; returns list of failures"""
  import jax
  import jax.numpy as jnp
  from jax import lax
  rng = np.random.RandomState(seed)
  fails = []

  def val(a):
    a = _a(a)
    out = []
    for v in a.data:
      t = z3.simplify(_num(v.t))
      out.append(float(t.numerator_as_long()) / float(t.denominator_as_long()))
    return np.array(out).reshape(a.shape)

  def r(*shape):
    return np.round(rng.randn(*shape) * 4) / 4

  def check(name, got, want, tol=1e-5):
    want = np.asarray(want, np.float64)
    g = val(got)
    if g.shape != want.shape or not np.allclose(g, want, atol=tol):
      fails.append(name)
  for _ in range(n):
    x, k = r(2, 4, 3), r(3, 5)
    check('dot', JNP.dot(x, k), np.dot(x, k))
    check('dot_general', LAX.dot_general(x, k, (((2,), (0,)), ((), ()))),
          lax.dot_general(jnp.asarray(x), jnp.asarray(k), (((2,), (0,)), ((), ()))))
    check('einsum', JNP.einsum('...ij,jk->...ik', x, k), np.einsum(
        '...ij,jk->...ik', x, k))
    q_, k_ = r(1, 2, 2, 3), r(1, 3, 2, 3)
    check('einsum2', JNP.einsum('bqhd,bkhd->bhqk', q_, k_),
          np.einsum('bqhd,bkhd->bhqk', q_, k_))
    check('mean', JNP.mean(x, axis=(0, 2), keepdims=True), x.mean(axis=(0, 2),
                                                                  keepdims=True))
    check('var', _a(x).var(axis=-1), x.var(axis=-1))
    check('transpose', JNP.transpose(x, (2, 0, 1)), x.transpose(2, 0, 1))
    check('moveaxis', JNP.moveaxis(x, 0, -1), np.moveaxis(x, 0, -1))
    check('expand', JNP.expand_dims(x, (0, 2)), np.expand_dims(x, (0, 2)))
    check('concat', JNP.concatenate([x, x + 1], axis=1), np.concatenate(
        [x, x + 1], axis=1))
    check('flip', JNP.flip(x, 1), np.flip(x, 1))
    check('repeat', JNP.repeat(x, 2, axis=1), np.repeat(x, 2, axis=1))
    for mode in ('constant', 'wrap', 'reflect'):
      check('pad_' + mode, JNP.pad(x, ((0, 0), (2, 1), (1, 1)), mode=mode),
            np.pad(x, ((0, 0), (2, 1), (1, 1)), mode=mode))
    check('where', JNP.where(_a(x) > 0, x, 0), np.where(x > 0, x, 0))
    t_ = r(3, 3)
    check('tril', JNP.tril(t_), np.tril(t_))
    img, ker = r(1, 5, 4, 2), r(2, 3, 2, 4)
    dn = lax.conv_dimension_numbers(img.shape, ker.shape, ('NHWC', 'HWIO', 'NHWC'))
    for pad in ('SAME', 'VALID', [(1, 2), (0, 1)]):
      for st, ld, rd in (((1, 1), (1, 1), (1, 1)), ((2, 1), (1, 1), (1, 2)),
                         ((1, 1), (2, 1), (1, 1))):
        if isinstance(pad, str) and ld != (1, 1):
          continue
        check('conv %r %r %r %r' % (pad, st, ld, rd),
              LAX.conv_general_dilated(img, ker, st, pad, ld, rd, dn),
              lax.conv_general_dilated(jnp.asarray(img), jnp.asarray(ker), st, pad,
                                       ld, rd, dn), 1e-4)
    seq, ker1 = r(2, 4, 2), r(3, 2, 3)
    for pad in ('SAME', 'VALID', [(1, 2)]):
      for st, rd, tk in ((1, 1, False), (2, 1, False), (3, 2, True), (2, 2, True),
                         (4, 1, False), (1, 2, True)):
        kk = np.swapaxes(ker1, 1, 2) if tk else ker1
        check('conv_transpose %r %r %r %r' % (pad, st, rd, tk),
              LAX.conv_transpose(seq, kk, (st,), pad, (rd,), None, tk),
              lax.conv_transpose(jnp.asarray(seq), jnp.asarray(kk), (st,), pad, (rd,),
                                 None, tk), 1e-4)
    for pad, st, rd_ in (('VALID', (1, 1), (1, 1)), ('SAME', (2, 1), (1, 1)),
                         ('VALID', (1, 2), (1, 2))):
      shp = jax.eval_shape(lambda a_, b_: lax.conv_general_dilated(
          a_, b_, st, pad, None, rd_, dn), jnp.asarray(img), jnp.asarray(ker)).shape
      lk = r(*(tuple(shp[1:-1]) + (2 * 3 * 2, 4)))
      check('conv_local %r %r %r' % (pad, st, rd_),
            LAX.conv_general_dilated_local(img, lk, st, pad, (2, 3), None, rd_, dn),
            lax.conv_general_dilated_local(jnp.asarray(img), jnp.asarray(lk), st, pad,
                                           (2, 3), None, rd_, dn), 1e-4)
    ker_g = r(2, 2, 1, 4)
    check('conv groups', LAX.conv_general_dilated(img, ker_g, (1, 1), 'SAME',
                                                  None, None, dn, 2),
          lax.conv_general_dilated(jnp.asarray(img), jnp.asarray(ker_g), (1, 1),
                                   'SAME', None, None, dn, 2), 1e-4)
    for pad in ('VALID', 'SAME', ((0, 0), (1, 1), (0, 1), (0, 0))):
      check('reduce_window %r' % (pad,),
            LAX.reduce_window(img, 0.0, LAX.add, (1, 2, 2, 1), (1, 2, 1, 1), pad),
            lax.reduce_window(jnp.asarray(img), 0.0, lax.add, (1, 2, 2, 1),
                              (1, 2, 1, 1), pad))
    emb, ids = r(4, 3), np.array([[1, 3], [0, 2]])
    check('take', JNP.take(emb, ids, axis=0), np.take(emb, ids, axis=0))
    check('take_along', JNP.take_along_axis(x, np.array([[[1], [0], [2], [1]]] * 2),
                                            axis=2),
          np.take_along_axis(x, np.array([[[1], [0], [2], [1]]] * 2), axis=2))
  return [f for f in fails if f]


# ---- real-jax pass-through: when a shim function is called only with real jax
# values (e.g. inside jax.eval_shape of an initializer) defer to the real function
def _has_sym(x):
  if isinstance(x, (A, S)):
    return True
  if isinstance(x, (list, tuple)):
    return any(_has_sym(v) for v in x)
  return False


def _has_jax(x):
  import jax
  if isinstance(x, jax.Array):
    return True
  if isinstance(x, (list, tuple)):
    return any(_has_jax(v) for v in x)
  return False


def _wrap_passthrough(cls, real):
  import functools
  for name, attr in list(vars(cls).items()):
    if isinstance(attr, staticmethod) and hasattr(real, name):
      fn = attr.__func__
      realfn = getattr(real, name)

      def make(fn, realfn):
        @functools.wraps(fn)
        def g(*a, **k):
          vals = list(a) + list(k.values())
          if not any(_has_sym(v) for v in vals) and any(_has_jax(v) for v in vals):
            return realfn(*a, **k)
          return fn(*a, **k)
        return g
      setattr(cls, name, staticmethod(make(fn, realfn)))


import jax.numpy as _real_jnp
_wrap_passthrough(JNP, _real_jnp)
_wrap_passthrough(LAX, _real_lax)
