"""C19 (part) -- the real flax.core.lift.vmap / lift.scan drive remove_axis / add_axis:
partition names stay aligned with the array axes on the way in (slices seen by the
body) and on the way out (stacked results), for In / Out / in-out collection axes.

jax.vmap and flax.core.axes_scan.scan are replaced by reference implementations on
numpy arrays (slice every leaf along its in-axis, call the body once per index, stack
the results along the out-axes); all axis / collection / metadata plumbing is the
real lift code."""
import numpy as np
import jax

from flax import core
from flax.core import lift as L, meta, axes_scan

from harness.c02 import RngStub
from vf.xh import with_real_dicts, pick, Reject

PN = 'layers'
KEY = jax.random.key(0)    # typed key created outside the symbolic tracer
N = 7                       # stacked size, distinct from every other dim
WSHAPE, WNAMES = (2, 3), ('in', 'out')
CSHAPE, CNAMES = (5,), ('feat',)


def _is_b(x):
  return x is None or x is axes_scan.broadcast


def _prefix(prefix, full):
  """axes prefix tree -> one axis per leaf of `full`"""
  out = []

  def f(ax, sub):
    out.extend([ax] * len(jax.tree_util.tree_leaves(sub)))
  jax.tree_util.tree_map(f, prefix, full, is_leaf=_is_b)
  return out


class _KeyStack:
  """stand-in for random.split(key, n): n copies of the key (key values are C09's
  subject; jax.random cannot run under the symbolic tracer)"""

  def __init__(self, key, n):
    self.key, self.shape = key, (n,)


def _slice(leaves, axes, i):
  return [x if _is_b(a) else (x.key if isinstance(x, _KeyStack) else np.take(
      np.asarray(x), i, axis=a)) for x, a in zip(leaves, axes)]


def _stack(per_iter, axes):
  out = []
  for j, a in enumerate(axes):
    col = [it[j] for it in per_iter]
    out.append(col[0] if _is_b(a) else np.stack([np.asarray(c) for c in col], axis=a))
  return out


def ref_vmap(fn, in_axes=0, out_axes=0, axis_name=None, axis_size=None,
             spmd_axis_name=None):
  def g(*args):
    leaves, td = jax.tree_util.tree_flatten(args)
    axes = _prefix(in_axes, args)
    n = axis_size
    for x, a in zip(leaves, axes):
      if not _is_b(a):
        n = x.shape[a] if isinstance(x, _KeyStack) else np.asarray(x).shape[a]
        break
    outs, otd = [], None
    for i in range(n):
      o = fn(*jax.tree_util.tree_unflatten(td, _slice(leaves, axes, i)))
      ol, otd = jax.tree_util.tree_flatten(o)
      outs.append((ol, o))
    oaxes = _prefix(out_axes, outs[0][1])
    return jax.tree_util.tree_unflatten(otd, _stack([o[0] for o in outs], oaxes))
  return g


def ref_scan(fn, in_axes, out_axes, length=None, reverse=False, unroll=1,
             _split_transpose=False, check_constancy_invariants=True):
  def g(broadcast_in, init, *args):
    leaves, td = jax.tree_util.tree_flatten(args)
    axes = _prefix(in_axes, args)
    n = length
    for x, a in zip(leaves, axes):
      if not _is_b(a):
        n = x.shape[a] if isinstance(x, _KeyStack) else np.asarray(x).shape[a]
        break
    carry, ys, otd, bout = init, [], None, broadcast_in
    order = range(n - 1, -1, -1) if reverse else range(n)
    first = True
    for i in order:
      xs = jax.tree_util.tree_unflatten(td, _slice(leaves, axes, i))
      b, carry, y = fn(bout if not first else broadcast_in, carry, *xs)
      if first:
        bout, first = b, False
      yl, otd = jax.tree_util.tree_flatten(y)
      ys.append((yl, y))
    if reverse:
      ys = ys[::-1]
    oaxes = _prefix(out_axes, ys[0][1])
    return bout, carry, jax.tree_util.tree_unflatten(
        otd, _stack([y[0] for y in ys], oaxes))
  return g


class _Random:
  split = staticmethod(lambda rng, n: _KeyStack(rng, n))
  clone = staticmethod(lambda rng: rng)

  def __getattr__(self, name):
    return getattr(jax.random, name)


class _JaxProxy:
  vmap = staticmethod(ref_vmap)

  def __getattr__(self, name):
    return getattr(jax, name)


class _AxesScan:
  scan = staticmethod(ref_scan)
  broadcast = axes_scan.broadcast

  def __getattr__(self, name):
    return getattr(axes_scan, name)


class LiftEnv:
  def __enter__(self):
    self.saved = (L.jax, L.random, L.axes_scan)
    L.jax, L.random, L.axes_scan = _JaxProxy(), _Random(), _AxesScan()
    self.rs = RngStub()
    self.rs.__enter__()
    return self

  def __exit__(self, *a):
    self.rs.__exit__()
    L.jax, L.random, L.axes_scan = self.saved
    return False


def _aligned(box, shape, names):
  return (isinstance(box, meta.Partitioned) and tuple(np.asarray(box.value).shape)
          == tuple(shape) and tuple(box.names) == tuple(names))


def _ins(t, k, v):
  k = k % (len(t) + 1)
  return tuple(t[:k]) + (v,) + tuple(t[k:])


AXES = [0, 1, 2, -1, -2]


@with_real_dicts
def lift_metadata(tr, ka, kb, mode_a, mutable_b, extra_in, reverse):
  """tr 0: lift.vmap, 1: lift.scan.  'params' is stacked along AXES[ka] (mode_a 0:
  plain int, 1: lift.Out at init / lift.In at apply), 'stats' along AXES[kb]; an
  extra In-only collection 'consts' (extra_in) precedes them so that the in- and
  out-group lists differ."""
  ka_, kb_ = pick(AXES, ka), pick(AXES, kb)
  if kb_ not in (0, 1, -1, -2):
    raise Reject()
  log = []

  def body(scope, x):
    w = scope.param('w', meta.with_partitioning(
        lambda rng, s: np.ones(s), WNAMES), WSHAPE)
    c = scope.variable('stats', 'c', lambda: meta.Partitioned(
        np.zeros(CSHAPE), names=CNAMES))
    # what the body sees: un-stacked slices whose names have no stacking entry
    log.append(_aligned(scope.get_variable('params', 'w'), WSHAPE, WNAMES))
    log.append(_aligned(scope.get_variable('stats', 'c'), CSHAPE, CNAMES))
    if extra_in and scope.has_variable('consts', 'k'):
      log.append(_aligned(scope.get_variable('consts', 'k'), (4,), ('kk',)))
    if scope.is_mutable_collection('stats'):
      c.value = c.value + 1
    return x

  def run(scope, x, init):
    pa = ka_ if not mode_a else (L.Out(ka_) if init else L.In(ka_))
    vaxes = {}
    if extra_in and not init:
      vaxes['consts'] = L.In(0)
    vaxes['params'] = pa
    vaxes['stats'] = kb_
    mp = {meta.PARTITION_NAME: PN}
    if tr == 0:
      return L.vmap(body, variable_axes=vaxes, split_rngs={'params': True},
                    in_axes=0, out_axes=0, metadata_params=mp)(scope, x)

    def sbody(scope, carry, x):
      return carry, body(scope, x)
    _, y = L.scan(sbody, variable_axes=vaxes, split_rngs={'params': True},
                  in_axes=0, out_axes=0, reverse=bool(reverse),
                  metadata_params=mp)(scope, 0, x)
    return y

  x = np.arange(N)
  want_w = (_ins(WSHAPE, ka_, N), _ins(WNAMES, ka_, PN))
  want_c = (_ins(CSHAPE, kb_, N), _ins(CNAMES, kb_, PN))
  with LiftEnv():
    y, vs = core.init(lambda s, x: run(s, x, True))({'params': KEY}, x)
    vs = core.unfreeze(vs)
    if set(vs) != {'params', 'stats'} or set(vs['params']) != {'w'} or set(
        vs['stats']) != {'c'}:
      return False
    if not (_aligned(vs['params']['w'], *want_w) and _aligned(vs['stats']['c'],
                                                             *want_c)):
      return False
    if extra_in:
      vs['consts'] = {'k': meta.Partitioned(np.zeros((N, 4)), names=(PN, 'kk'))}
    n0 = len(log)
    out = core.apply(lambda s, x: run(s, x, False),
                     mutable=['stats'] if mutable_b else False)(vs, x)
    if mutable_b:
      y2, upd = out
      if set(upd) != {'stats'} or not _aligned(upd['stats']['c'], *want_c):
        return False
      if not (np.asarray(upd['stats']['c'].value) == 2).all():   # init: 1, apply: +1
        return False
    # the caller's variables keep their metadata
    if not (_aligned(vs['params']['w'], *want_w) and _aligned(vs['stats']['c'],
                                                             *want_c)):
      return False
  return len(log) > n0 and all(log)


# ------------------------------------------------------------------ nnx.vmap / nnx.scan
from flax import nnx
from harness.arr import Arr
from harness import c08 as C08


class _SM(nnx.Module):
  def __init__(self, w, c):
    self.w = nnx.Param(w, sharding=None)
    self.c = nnx.BatchStat(c)


def _names_ok(var, shape, names):
  return tuple(var.value.shape) == tuple(shape) and tuple(var.sharding) == tuple(names)


@with_real_dicts
def nnx_transform_metadata(tr, ka, other, order, oa):
  """nnx.vmap / nnx.scan with transform_metadata={PARTITION_NAME: 'layers'}: inside
  the body every sliced Variable has one name per remaining axis (the stacking name
  removed at the sliced position), afterwards the caller's Variables carry their
  names again; for every order of the StateAxes filters (an axis filter before or
  after a Carry / None / other-axis filter)."""
  k = pick([0, 1, 2, -1], ka)
  n = 3
  wshape, wnames = (2, 4), ('din', 'dout')
  full_shape, full_names = _ins(wshape, k, n), _ins(wnames, k, PN)
  w = Arr(list(range(2 * 4 * n)), full_shape)
  # the BatchStat group: 0 = Carry (scan) / None (vmap), 1 = its own axis 0
  if other == 0:
    c_axis = nnx.Carry if tr == 1 else None
    c = Arr([5], (1,))
    cnames = ('stat',)
  else:
    c_axis = 0
    c = Arr([5] * n, (n, 1))
    cnames = (PN, 'stat')
  m = _SM(w, c)
  m.w.sharding = full_names
  m.c.sharding = cnames
  items = [(nnx.Param, k), (nnx.BatchStat, c_axis)]
  if order:
    items.reverse()
  axes = nnx.StateAxes(dict(items))
  seen = []

  ko = pick([0, 1, -1], oa)

  def body(mm, x):
    seen.append(_names_ok(mm.w, wshape, wnames))
    seen.append(_names_ok(mm.c, (1,), ('stat',)))
    # a Variable created inside the body and returned as a stacked output
    fresh = nnx.Param(Arr([7, 8], (2,)))
    fresh.sharding = ('feat',)
    return x, fresh
  x = Arr([1, 2, 3], (n,))
  md = {nnx.PARTITION_NAME: PN}
  with C08.VmapEnv():
    if tr == 0:
      _, out = nnx.vmap(body, in_axes=(axes, 0), out_axes=(0, ko),
                        transform_metadata=md)(m, x)
    else:
      _, out = nnx.scan(body, in_axes=(axes, 0), out_axes=(0, ko),
                        transform_metadata=md)(m, x)
  if not seen or not all(seen):
    return False
  if not _names_ok(out, _ins((2,), ko, n), _ins(('feat',), ko, PN)):
    return False
  return _names_ok(m.w, full_shape, full_names) and _names_ok(
      m.c, c.shape, cnames)
