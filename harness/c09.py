"""C09 -- random keys are deterministic, position-addressed, never reused."""
import time

import jax
import numpy as np
import z3

from flax.core import scope as S
from flax import config as flax_config
from flax.nnx import rnglib as RL
from flax import nnx

from harness.common import qualnames
from vf.ob import Ob
from vf.xh import I, B, Reject, pick, concretize, untraced

BYTE = z3.BitVecSort(8)
SEQ = z3.SeqSort(BYTE)
_KEYS = [jax.random.key(i) for i in range(3)]


# ====================================================================== part B
# Concolic recording of the real _fold_in_static: the real function body runs on
# symbolic str/int stand-ins; what it feeds to sha1 is recorded as a z3 sequence.
class SymBytes:
  def __init__(self, term):
    self.term = term


class SymStr(str):
  """a str whose content is a z3 byte sequence (ASCII, no NUL => utf-8 == bytes)"""

  def __new__(cls, term):
    o = super().__new__(cls, '<sym>')
    o.term = term
    return o

  def encode(self, encoding='utf-8', errors='strict'):
    assert encoding.lower().replace('_', '-') in ('utf-8', 'utf8', 'ascii')
    return SymBytes(self.term)


class _NBytes:
  """the expression (x.bit_length() + k) // 8 recorded structurally"""

  def __init__(self, owner, add=0, div=1):
    self.owner, self.add, self.div = owner, add, div

  def __add__(self, k):
    assert self.div == 1
    return _NBytes(self.owner, self.add + k, 1)

  def __floordiv__(self, k):
    return _NBytes(self.owner, self.add, self.div * k)


class SymInt(int):
  """an int in [0, 2^24) whose value is a z3 BitVec(24)"""

  def __new__(cls, term):
    o = super().__new__(cls, 1)
    o.term = term
    return o

  def bit_length(self):
    return _NBytes(self)

  def to_bytes(self, length=1, byteorder='big', *, signed=False):
    v = self.term              # BitVec(24)
    b = lambda sh: z3.Unit(z3.Extract(8 * sh + 7, 8 * sh, v))
    if isinstance(length, _NBytes):
      if not (length.owner is self and length.add == 7 and length.div == 8):
        raise NotImplementedError('untranslatable byte-length expression')
      # minimal big-endian encoding ((bit_length+7)//8 bytes)
      seqs = [z3.Empty(SEQ), b(0), z3.Concat(b(1), b(0)),
              z3.Concat(b(2), b(1), b(0))]
      if byteorder == 'little':
        seqs = [z3.Empty(SEQ), b(0), z3.Concat(b(0), b(1)),
                z3.Concat(b(0), b(1), b(2))]
      return SymBytes(z3.If(v == 0, seqs[0], z3.If(z3.ULT(v, 256), seqs[1], z3.If(
          z3.ULT(v, 65536), seqs[2], seqs[3]))))
    n = int(length)
    parts = [b(i) for i in range(n)]
    if byteorder == 'big':
      parts = parts[::-1]
    return SymBytes(z3.Concat(*parts) if n > 1 else (parts[0] if n else
                                                      z3.Empty(SEQ)))


class _RecSha1:
  def __init__(self):
    self.parts = []

  def update(self, data):
    if isinstance(data, SymBytes):
      self.parts.append(data.term)
    else:
      for byte in bytes(data):
        self.parts.append(z3.Unit(z3.BitVecVal(byte, 8)))

  def digest(self):
    return b'\0' * 20


class _RecHashlib:
  last = None

  @classmethod
  def sha1(cls):
    cls.last = _RecSha1()
    return cls.last


def record_encoding(elems, flag):
  """runs the REAL flax.core.scope._fold_in_static on symbolic elements and returns
  the z3 byte sequence it hashes"""
  saved = (S.hashlib, S.random, S.jnp)

  class _R:
    @staticmethod
    def fold_in(rng, x):
      return ('folded', rng)

  class _J:
    uint32 = staticmethod(lambda x: x)
  old_flag = flax_config.flax_fix_rng_separator
  flax_config.update('flax_fix_rng_separator', flag)
  S.hashlib, S.random, S.jnp = _RecHashlib, _R, _J
  try:
    out = S._fold_in_static('RNG', tuple(elems))
  finally:
    S.hashlib, S.random, S.jnp = saved
    flax_config.update('flax_fix_rng_separator', old_flag)
  assert out == ('folded', 'RNG')
  parts = _RecHashlib.last.parts
  if not parts:
    return z3.Empty(SEQ)
  return z3.Concat(*parts) if len(parts) > 1 else parts[0]


def _mk_suffix(tag, k, maxlen, cmax, solver):
  names = []
  for i in range(k):
    t = z3.Const('%s_n%d' % (tag, i), SEQ)
    solver.add(z3.Length(t) >= 1, z3.Length(t) <= maxlen)
    for j in range(maxlen):
      solver.add(z3.Implies(j < z3.Length(t), z3.And(
          z3.BV2Int(t[j]) >= 1, z3.BV2Int(t[j]) <= 127)))
    names.append(t)
  c = z3.BitVec('%s_c' % tag, 24)
  solver.add(z3.UGE(c, 1), z3.ULE(c, cmax))
  return names, c


def _seq_val(m, t):
  v = m.eval(t, model_completion=True)
  n = m.eval(z3.Length(v)).as_long()
  return ''.join(chr(m.eval(v[i]).as_long()) for i in range(n))


def path_encoding(flag, cmax, claim, depth=2, maxlen=3, regions=()):
  """SMT: no two different well-formed suffixes (<=2 path names of <=3 ASCII chars,
  final count) are hashed to the same byte string.
  claim 'all': any two different paths (separator fix on)
  claim 'count': same path, different count
  claim 'sibling': same parent path and count, different last name"""
  t0 = time.time()
  queries = 0
  second = {}
  claim = ['all', 'count', 'sibling'][claim] if isinstance(claim, int) else claim
  for k in range(0, depth + 1):
    for l in range(0, depth + 1):
      if claim in ('count', 'sibling') and k != l:
        continue
      if claim == 'sibling' and k == 0:
        continue
      s = z3.Solver()
      s.set('timeout', 120000)
      an, ac = _mk_suffix('a', k, maxlen, cmax, s)
      bn, bc = _mk_suffix('b', l, maxlen, cmax, s)
      ea = record_encoding([SymStr(t) for t in an] + [SymInt(ac)], flag)
      eb = record_encoding([SymStr(t) for t in bn] + [SymInt(bc)], flag)
      s.add(ea == eb)
      if claim == 'all':
        if k == l:
          s.add(z3.Or([x != y for x, y in zip(an, bn)] + [ac != bc]))
      elif claim == 'count':
        s.add(z3.And([x == y for x, y in zip(an, bn)] + [ac != bc]))
      else:
        s.add(z3.And([x == y for x, y in zip(an[:-1], bn[:-1])] + [
            ac == bc, an[-1] != bn[-1]]))
      if 'count_bytes_contain_zero' in regions:
        # known finding F6: a count >= 256 whose big-endian bytes contain 0x00
        for c in (ac, bc):
          s.add(z3.Not(z3.And(z3.UGE(c, 256), z3.Or(
              z3.Extract(7, 0, c) == 0,
              z3.And(z3.UGE(c, 65536), z3.Extract(15, 8, c) == 0)))))
      # vacuity guard: assumptions alone must be satisfiable
      queries += 1
      r = s.check()
      # second solver (cvc5 binary) on the same SMT-LIB2 text: must agree
      from vf import smt2
      other = smt2.cvc5_verdict(s)
      second[other] = second.get(other, 0) + 1
      if other not in ('unavailable', str(r)):
        return dict(status='unknown', queries=queries, solver_s=time.time() - t0,
                    detail='z3 says %s, cvc5 says %s for shape %d,%d' % (r, other,
                                                                         k, l))
      if r == z3.unknown:
        return dict(status='unknown', queries=queries, detail='shape %d,%d' % (k, l),
                    solver_s=time.time() - t0)
      if r == z3.sat:
        m = s.model()
        cex = dict(a_names=[_seq_val(m, t) for t in an],
                   a_count=m.eval(ac, model_completion=True).as_long(),
                   b_names=[_seq_val(m, t) for t in bn],
                   b_count=m.eval(bc, model_completion=True).as_long(), flag=flag)
        return dict(status='sat', queries=queries, cex=cex,
                    detail='two suffixes hash the same bytes',
                    solver_s=time.time() - t0)
  # reachability twin: dropping the difference requirement must be satisfiable
  s = z3.Solver()
  an, ac = _mk_suffix('a', 1, 3, cmax, s)
  s.add(record_encoding([SymStr(an[0]), SymInt(ac)], flag) ==
        record_encoding([SymStr(an[0]), SymInt(ac)], flag))
  queries += 1
  if s.check() != z3.sat:
    return dict(status='unknown', queries=queries, detail='vacuous encoding')
  return dict(status='unsat', queries=queries, solver_s=time.time() - t0,
              witness=dict(shapes='k,l in 0..%d' % depth, maxlen=maxlen, flag=flag,
                           cmax=cmax, cvc5_verdicts=second))


def replay_path_encoding(a_names, a_count, b_names, b_count, flag):
  """real keys for the two suffixes differ?  (True = property holds)"""
  old = flax_config.flax_fix_rng_separator
  flax_config.update('flax_fix_rng_separator', bool(flag))
  try:
    ka = S.LazyRng.create(_KEYS[0], *a_names, a_count).as_jax_rng()
    kb = S.LazyRng.create(_KEYS[0], *b_names, b_count).as_jax_rng()
  finally:
    flax_config.update('flax_fix_rng_separator', old)
  same = bool((jax.random.key_data(ka) == jax.random.key_data(kb)).all())
  differ_in = (list(a_names), a_count) != (list(b_names), b_count)
  return not (same and differ_in)


def encoding_validation(n0, n1, c, flag):
  """translation validation: the recorded encoding equals what the real function
  feeds to the real sha1 on concrete inputs"""
  names = [pick(['a', 'bc', 'x_y', 'Dense_0'], n0), pick(['a', 'q', 'zz9'], n1)]
  c = concretize(c, 0, 70000)
  real = []

  class H:
    @staticmethod
    def sha1():
      class M:
        def update(self, d):
          real.append(bytes(d))

        def digest(self):
          return b'\0' * 20
      return M()
  saved = (S.hashlib, S.random, S.jnp)
  old = flax_config.flax_fix_rng_separator
  flax_config.update('flax_fix_rng_separator', bool(flag))
  S.hashlib = H
  S.random = type('R', (), {'fold_in': staticmethod(lambda r, x: r)})
  S.jnp = type('J', (), {'uint32': staticmethod(lambda x: x)})
  try:
    S._fold_in_static('R', (names[0], names[1], c))
  finally:
    S.hashlib, S.random, S.jnp = saved
    flax_config.update('flax_fix_rng_separator', old)
  want = b''.join(real)
  seq = lambda bs: (z3.Concat(*[z3.Unit(z3.BitVecVal(x, 8)) for x in bs])
                    if len(bs) > 1 else z3.Unit(z3.BitVecVal(bs[0], 8)))
  enc = record_encoding([SymStr(seq(names[0].encode())),
                         SymStr(seq(names[1].encode())),
                         SymInt(z3.BitVecVal(c, 24))], bool(flag))
  s = z3.Solver()
  s.add(enc != seq(want))
  return s.check() == z3.unsat


# ====================================================================== part A
STREAMS = ['params', 'dropout', 'noise']      # 'noise' has no key: falls back
CHILD = ['a', 'b']


class _TermFold:
  """injective stand-in for _fold_in_static: keys become (base key id, suffix)"""

  def __init__(self):
    self.log = []

  def __call__(self, rng, data):
    base = [i for i, k in enumerate(_KEYS) if k is rng]
    assert len(base) == 1
    return ('key', base[0], tuple(data))


def _run_scope_program(prog):
  """prog: list of (where, stream).  where 0 root, 1 child a, 2 child b,
  3 grandchild a/c, 4 child 'zz' (the unrelated sibling).  Returns list of keys."""
  tf = _TermFold()
  saved = S._fold_in_static
  S._fold_in_static = tf
  draws = []
  try:
    def fn(scope):
      kids = {}

      def get(where):
        if where == 0:
          return scope
        if where in (1, 2, 4):
          nm = {1: 'a', 2: 'b', 4: 'zz'}[where]
          if nm not in kids:
            kids[nm] = scope.push(nm)
          return kids[nm]
        a = get(1)
        if 'a/c' not in kids:
          kids['a/c'] = a.push('c')
        return kids['a/c']
      for where, stream in prog:
        draws.append(get(where).make_rng(STREAMS[stream]))
    S.apply(fn, mutable=True)({}, rngs={'params': _KEYS[0], 'dropout': _KEYS[1]})
  finally:
    S._fold_in_static = saved
  return draws


def _ref_keys(prog):
  paths = {0: (), 1: ('a',), 2: ('b',), 3: ('a', 'c'), 4: ('zz',)}
  counters = {}
  out = []
  for where, stream in prog:
    s = stream if stream < 2 else 0          # missing stream -> 'params'
    counters[(where, s)] = counters.get((where, s), 0) + 1
    out.append(('key', s, paths[where] + (counters[(where, s)],)))
  return out


def linen_position_addressing(n, w0, s0, w1, s1, w2, s2, w3, s3, ins, iw, is_):
  """every make_rng key is a function of (stream seed, scope path, per-scope
  count); no key is handed out twice in a run; inserting an unrelated sibling /
  stream draw changes no other key; missing stream falls back to 'params'."""
  raw = [(w0, s0), (w1, s1), (w2, s2), (w3, s3)]
  prog = []
  for w, s in raw[:n]:
    prog.append((pick([0, 1, 2, 3], w), pick([0, 1, 2], s)))
  for w, s in raw[n:]:
    if w != 0 or s != 0:
      raise Reject()
  got = _run_scope_program(prog)
  if got != _ref_keys(prog):
    return False
  if len(set(got)) != len(got):
    return False
  if _run_scope_program(prog) != got:
    return False                       # same program, same seeds -> same keys
  # insert an unrelated draw at position `ins`
  if ins > n:
    raise Reject()
  extra = (4, pick([0, 1, 2], is_)) if iw == 0 else (0, 1)   # sibling zz | root dropout
  if iw == 1 and any(w == 0 and s == 1 for w, s in prog):
    raise Reject()                     # not unrelated: same scope and stream
  prog2 = prog[:ins] + [extra] + prog[ins:]
  got2 = _run_scope_program(prog2)
  rest = got2[:ins] + got2[ins + 1:]
  return rest == got and got2[ins] not in got


# ---------------------------------------------------------------- NNX streams
class TKey:
  """term-algebra key: fold_in / split are injective constructors"""

  def __init__(self, term, shape=()):
    self.term, self.shape = term, tuple(shape)
    self.dtype = 'key'

  def __eq__(self, o):
    return isinstance(o, TKey) and (self.term, self.shape) == (o.term, o.shape)

  def __hash__(self):
    return hash((self.term, self.shape))

  def __getitem__(self, i):
    return TKey(('idx', self.term, i), self.shape[1:])

  def __repr__(self):
    return 'TKey%r' % (self.term,)


class TCount:
  def __init__(self, v, shape=()):
    self.v, self.shape = v, tuple(shape)
    self.dtype = 'uint32'

  def __add__(self, k):
    return TCount(self.v + k, self.shape)

  __radd__ = __add__

  def __eq__(self, o):
    return isinstance(o, TCount) and (self.v, self.shape) == (o.v, o.shape)

  def __hash__(self):
    return hash((self.v, self.shape))


class _RandomStub:
  @staticmethod
  def key(seed):
    return TKey(('seed', seed))

  @staticmethod
  def fold_in(key, count):
    assert key.shape == count.shape == (), 'fold_in on batched key'
    return TKey(('fold', key.term, count.v))

  @staticmethod
  def split(key, n):
    shape = (n,) if isinstance(n, int) else tuple(n)
    return TKey(('split', key.term, shape), shape + key.shape)

  @staticmethod
  def wrap_key_data(x):
    return x


class _JaxStub:
  Array = (TKey, TCount)
  random = _RandomStub()

  class tree:
    map = staticmethod(jax.tree.map)

  def __getattr__(self, name):
    return getattr(jax, name)


class _JnpStub:
  uint32 = 'uint32'

  @staticmethod
  def zeros(shape, dtype=None):
    return TCount(0, shape)

  @staticmethod
  def array(v, dtype=None):
    return TCount(v, ())


class RngEnv:
  def __enter__(self):
    self.saved = (RL.jax, RL.jnp)
    RL.jax, RL.jnp = _JaxStub(), _JnpStub()
    return self

  def __exit__(self, *a):
    RL.jax, RL.jnp = self.saved
    return False


NOPS_NNX = 7


def nnx_streams(n, o0, o1, o2, o3, o4, a0, a1, a2, a3, a4):
  """NNX Rngs histories: no key term is returned twice (the key consumed by a
  split counts as used), missing stream falls back to 'default', restore resumes
  after the key consumed by the split, reseed restarts the stream."""
  ops = []
  raw = [(o0, a0), (o1, a1), (o2, a2), (o3, a3), (o4, a4)]
  for o, a in raw[:n]:
    ops.append((pick(list(range(NOPS_NNX)), o), pick([0, 1, 2], a)))
  for o, a in raw[n:]:
    if o != 0 or a != 0:
      raise Reject()
  with RngEnv():
    rngs = nnx.Rngs(0, params=1)          # streams: default(seed 0), params(seed 1)
    names = ['default', 'params', 'dropout']     # 'dropout' -> falls back to default
    seeds = {'default': 0, 'params': 1}
    gen = {'default': 0, 'params': 0}            # reseed generation
    count = {'default': 0, 'params': 0}
    used = []
    backups = None
    split_live = {}
    for op, a in ops:
      name = names[a]
      real = name if name in seeds else 'default'
      if op in (0, 1):                    # draw via attribute / item access
        if real in split_live:
          continue                        # stream is split: not drawn outside vmap
        k = getattr(rngs, name)() if op == 0 else rngs[name]()
        want = TKey(('fold', ('seed', seeds[real]), count[real]))
        count[real] += 1
        if k != want or k in used:
          return False
        used.append(k)
      elif op == 2:                       # split (transform entry)
        if backups is not None:
          continue
        backups = nnx.split_rngs(rngs, splits=2 + a)
        for nm in seeds:
          parent = TKey(('fold', ('seed', seeds[nm]), count[nm]))
          if parent in used:
            return False
          used.append(parent)
          count[nm] += 1
          split_live[nm] = parent
          st = getattr(rngs, nm)
          if st.key.value != TKey(('split', parent.term, (2 + a,)), (2 + a,)):
            return False
          if st.count.value != TCount(0, (2 + a,)):
            return False
      elif op == 3:                       # restore (transform exit)
        if backups is None:
          continue
        nnx.restore_rngs(backups)
        backups = None
        split_live = {}
        for nm in seeds:
          st = getattr(rngs, nm)
          if st.key.value != TKey(('seed', seeds[nm])) or st.count.value != TCount(
              count[nm]):
            return False
      elif op == 4:                       # reseed one stream
        if backups is not None or real != name:
          continue
        newseed = 100 + len(used) + 10 * a
        # reseed with an int seed (stream 'default') or with a ready-made key
        # array (stream 'params'): both must restart the stream at count 0
        nnx.reseed(rngs, **{name: newseed if a == 0 else TKey(('seed', newseed))})
        seeds[name] = newseed
        count[name] = 0
      elif op == 5:                       # __call__ == default stream
        if 'default' in split_live:
          continue
        k = rngs()
        want = TKey(('fold', ('seed', seeds['default']), count['default']))
        count['default'] += 1
        if k != want or k in used:
          return False
        used.append(k)
      else:                               # containment / iteration are read-only
        if ('params' in rngs) is not True or ('dropout' in rngs) is not False:
          return False
        if sorted(rngs) != ['default', 'params'] or len(rngs) != 2:
          return False
  return len(set(used)) == len(used)


def nnx_no_default(a):
  """no such stream and no 'default' -> error, not a silently shared key"""
  with RngEnv():
    rngs = nnx.Rngs(params=1)
    try:
      getattr(rngs, pick(['dropout', 'noise'], a))()
      return False
    except AttributeError:
      pass
    try:
      rngs[pick(['dropout', 'noise'], a)]()
      return False
    except KeyError:
      return True


EXPLANATION = (
    'C09: (B) the bytes the real _fold_in_static feeds to SHA-1 are recorded by '
    'running it on symbolic str/int stand-ins and z3 decides injectivity of the '
    'path encoding (<=2 path names of <=3 ASCII chars + count) for both settings '
    'of flax_fix_rng_separator; (A) scope programs of <=4 make_rng draws with '
    '_fold_in_static replaced by an injective term constructor, and NNX Rngs '
    'histories of <=5 ops with jax.random replaced by a term algebra.')
ASSUMPTIONS = (
    'SHA-1 truncated to 32 bits and threefry fold_in/split are treated as injective '
    '(cannot be encoded); names are ASCII without NUL; counts < 2^24',
    'actual key bits, initialiser values and rng plumbing under real jit/scan/vmap '
    'are outside the claim',
    'jax.core.get_opaque_trace_state compat shim installed by the harness process',
)


def obligations(tier):
  quick = tier == 'quick'
  F = qualnames(S._fold_in_static, S.LazyRng.create, S.LazyRng.as_jax_rng)
  G = qualnames(S.Scope.make_rng, S.Scope.push, S.LazyRng.create, S.apply)
  H = qualnames(RL.RngStream.__call__, RL.Rngs.__init__, RL.Rngs._get_stream,
                RL.split_rngs, RL.restore_rngs, RL.reseed)
  w = I(0, 3)
  s = I(0, 2)
  o = I(0, NOPS_NNX - 1)
  a = I(0, 2)
  nmax = 3
  dp = I(2, 2) if quick else I(3, 3)
  ml = I(3, 3) if quick else I(6, 6)
  return [
      Ob('encoding_matches_real_function', encoding_validation,
         dict(n0=I(0, 3), n1=I(0, 2), c=I(0, 3), flag=B()), timeout=300, funcs=F,
         bounds='translation validation on concrete names/counts'),
      Ob('path_encoding_sep_on_counts_1_255', path_encoding,
         dict(flag=I(1, 1), cmax=I(255, 255), claim=I(0, 0), depth=dp, maxlen=ml), kind='smt',
         split=('flag', 'cmax', 'claim', 'depth', 'maxlen'), timeout=600, funcs=F,
         replay=replay_path_encoding,
         bounds='separator fix ON, <=%d path names of 1..%d ASCII chars, counts ' % (dp.hi, ml.hi) +
                '1..255: any two different paths hash different bytes'),
      Ob('path_encoding_sep_on_counts_lt_2p24', path_encoding,
         dict(flag=I(1, 1), cmax=I(2 ** 24 - 1, 2 ** 24 - 1), claim=I(0, 0), depth=dp, maxlen=ml),
         kind='smt', split=('flag', 'cmax', 'claim', 'depth', 'maxlen'), timeout=600, funcs=F,
         replay=replay_path_encoding,
         bounds='separator fix ON, counts 1..2^24-1'),
      Ob('path_encoding_sep_off_same_path_diff_count', path_encoding,
         dict(flag=I(0, 0), cmax=I(2 ** 24 - 1, 2 ** 24 - 1), claim=I(1, 1), depth=dp, maxlen=ml),
         kind='smt', split=('flag', 'cmax', 'claim', 'depth', 'maxlen'), timeout=600, funcs=F,
         replay=replay_path_encoding,
         bounds='separator fix OFF: same path, different count'),
      Ob('path_encoding_sep_off_sibling_names', path_encoding,
         dict(flag=I(0, 0), cmax=I(2 ** 24 - 1, 2 ** 24 - 1), claim=I(2, 2), depth=dp, maxlen=ml),
         kind='smt', split=('flag', 'cmax', 'claim', 'depth', 'maxlen'), timeout=600, funcs=F,
         replay=replay_path_encoding,
         bounds='separator fix OFF: same parent path and count, different last '
                'name'),
      Ob('linen_position_addressing', linen_position_addressing,
         dict(n=I(0, nmax), w0=w, s0=s, w1=w, s1=s, w2=w, s2=s, w3=w, s3=s,
              ins=I(0, 1) if quick else I(0, nmax), iw=I(0, 1),
              is_=I(0, 0) if quick else I(0, 2)),
         split=('n', 'w0', 's0'), timeout=600, funcs=G,
         bounds='<=%d draws over root / 2 children / a grandchild x 3 stream names '
                '(one missing), one unrelated draw inserted at %s' % (
                    nmax, 'position 0 or 1' if quick else 'every position')),
      Ob('nnx_streams', nnx_streams,
         dict(n=I(0, 3 if quick else 4), o0=o, o1=o, o2=o, o3=o, o4=o, a0=a, a1=a,
              a2=a, a3=a, a4=a), split=('n', 'o0', 'o1'), timeout=600, funcs=H,
         bounds='histories of <=%d ops over {draw, draw by item, split_rngs, '
                'restore_rngs, reseed, __call__, read-only}' % (3 if quick else 4)),
      Ob('nnx_no_default', nnx_no_default, dict(a=I(0, 1)), timeout=60, funcs=H),
  ]
