"""C20 -- host-side data helpers preserve values and order."""
import itertools

import jax
import numpy as _real_np

from flax import jax_utils as JU
from flax.training import common_utils as CU

from harness.common import qualnames
from vf.ob import Ob
from vf.xh import I, B, Z, Reject, pick, concretize


# ------------------------------------------------------------ symbolic-length array
class SegArr:
  """Array stand-in whose leading dimension is a *symbolic* int: rows are described
  as segments [(kind, start, length)], kind 'orig' (rows start..start+length-1 of
  the caller's batch) or 'zero' (padding); `fn` counts applications of the wrapped
  per-example function.  Trailing dims are opaque."""

  def __init__(self, segs, lead, rest=(3,), fn=0, dtype='f4'):
    self.segs = [s for s in segs]
    self.lead = tuple(lead)          # leading dims whose product == total rows
    self.rest = tuple(rest)
    self.fn = fn
    self.dtype = dtype

  @property
  def shape(self):
    return self.lead + self.rest

  def rows(self):
    n = 0
    for _, _, ln in self.segs:
      n = n + ln
    return n

  def reshape(self, *shape):
    if len(shape) == 1 and isinstance(shape[0], (list, tuple)):
      shape = tuple(shape[0])
    nrest = len(self.rest)
    lead = tuple(shape[:len(shape) - nrest])
    if tuple(shape[len(shape) - nrest:]) != self.rest:
      raise ValueError('reshape touches trailing dims')
    prod = 1
    for s in lead:
      prod = prod * s
    if prod != self.rows():
      raise ValueError('cannot reshape array of %r rows into %r' % (self.rows(),
                                                                    lead))
    return SegArr(self.segs, lead, self.rest, self.fn, self.dtype)

  def __getitem__(self, sl):
    if not (isinstance(sl, slice) and sl.start is None and sl.step is None):
      raise TypeError('only [:b]')
    if len(self.lead) != 1:
      raise ValueError('slice on unflattened array')
    want = sl.stop
    out = []
    for kind, start, ln in self.segs:
      if want <= 0:
        break
      take = ln if ln <= want else want
      out.append((kind, start, take))
      want = want - take
    n = 0
    for _, _, ln in out:
      n = n + ln
    return SegArr(out, (n,), self.rest, self.fn, self.dtype)


class _NPProxy:
  @staticmethod
  def zeros(shape, dtype=None):
    return SegArr([('zero', 0, shape[0])], (shape[0],), tuple(shape[1:]),
                  dtype=dtype if isinstance(dtype, str) else 'f4')

  @staticmethod
  def concatenate(parts, axis=0):
    segs = []
    n = 0
    for p in parts:
      if len(p.lead) != 1:
        raise ValueError('concatenate on unflattened')
      segs.extend(p.segs)
      n = n + p.lead[0]
    # numpy promotes when the parts disagree: the result is then neither dtype
    dt = parts[0].dtype
    for p in parts[1:]:
      if p.dtype != dt:
        dt = 'promoted(%s,%s)' % (dt, p.dtype)
    return SegArr(segs, (n,), parts[0].rest, parts[0].fn, dt)

  @staticmethod
  def prod(xs):
    r = 1
    for x in xs:
      r = r * x
    return r

  def __getattr__(self, name):
    return getattr(_real_np, name)


class _JaxProxy:
  def __init__(self, d):
    self._d = d
    self.tree_util = jax.tree_util

  def local_device_count(self):
    return self._d

  @staticmethod
  def device_get(x):
    return x

  def __getattr__(self, name):
    return getattr(jax, name)


def pad_shard_unpad(d, b, m, use_m, kwarg, static_ret):
  """for every batch size b>=1 and min_device_batch: the wrapped function sees
  (d, db, ...) arrays holding the b original rows first, in order, then zeros;
  the caller gets back exactly rows 0..b-1, in order, each passed through the
  wrapped function once."""
  seen = []

  def wrapped(params, x, y=None, z=None):
    seen.append((params, x, y, z))
    arrs = [x] if y is None else [x, y, z]
    outs = [SegArr(a.segs, a.lead, a.rest, a.fn + 1, a.dtype) for a in arrs]
    return outs[0] if y is None else {'x': outs[0], 'y': outs[1], 'z': outs[2]}

  x = SegArr([('orig', 0, b)], (b,))
  y = SegArr([('orig', 0, b)], (b,), rest=(2, 2))
  # same per-example shape as x, another dtype
  z = SegArr([('orig', 0, b)], (b,), dtype='i4')
  old_np, old_jax = JU.np, JU.jax
  JU.np, JU.jax = _NPProxy(), _JaxProxy(d)
  try:
    f = JU.pad_shard_unpad(wrapped, static_argnums=(0,), static_return=static_ret)
    kw = {}
    if use_m:
      kw['min_device_batch'] = m
    if kwarg:
      out = f('P', x, y=y, z=z, **kw)
    else:
      out = f('P', x, **kw)
  finally:
    JU.np, JU.jax = old_np, old_jax
  if len(seen) != 1 or seen[0][0] != 'P':
    return False
  # what the wrapped function saw
  db_min = (b + d - 1) // d
  for a, dt in [(seen[0][1], 'f4')] + ([(seen[0][2], 'f4'), (seen[0][3], 'i4')]
                                       if kwarg else []):
    if len(a.lead) != 2 or a.lead[0] != d or a.dtype != dt:
      return False
    db = a.lead[1]
    if db < db_min or (use_m and m and db < m) or d * db != a.rows():
      return False
    # minimal padding: db == max(ceil(b/d), m)
    want_db = db_min
    if use_m and m and m > want_db:
      want_db = m
    if db != want_db:
      return False
    if a.segs[0] != ('orig', 0, b):
      return False
    for kind, _, ln in a.segs[1:]:
      if kind != 'zero':
        return False
  outs = [(out, 'f4')] if not kwarg else [(out['x'], 'f4'), (out['y'], 'f4'),
                                         (out['z'], 'i4')]
  for o, dt in outs:
    if o.dtype != dt:
      return False
    if static_ret:
      if len(o.lead) != 2 or o.fn != 1:
        return False
      continue
    segs = [s for s in o.segs if s[2] != 0]
    if segs != [('orig', 0, b)] or o.lead != (b,) or o.fn != 1:
      return False
  return True


def pad_inconsistent(d, b1, b2):
  """different leading sizes among the non-static arguments are rejected"""
  if b1 == b2:
    raise Reject()
  x = SegArr([('orig', 0, b1)], (b1,))
  y = SegArr([('orig', 0, b2)], (b2,))
  old_np, old_jax = JU.np, JU.jax
  JU.np, JU.jax = _NPProxy(), _JaxProxy(d)
  try:
    JU.pad_shard_unpad(lambda p, a, c: a)('P', x, y)
  except AssertionError:
    return True
  finally:
    JU.np, JU.jax = old_np, old_jax
  return False


# ------------------------------------------------------------ prefetch_to_device
class SourceError(Exception):
  pass


class Shards:
  """opaque pytree leaf that iterates over per-device shards"""

  def __init__(self, xs):
    self.xs = list(xs)

  def __iter__(self):
    return iter(self.xs)


def _source(n, fail_at, log):
  for i in range(n):
    if i == fail_at:
      log.append(('fail', i))
      raise SourceError(i)
    log.append(('produce', i))
    yield {'a': Shards([i]), 'b': Shards([i + 100])}
  if fail_at == n:
    log.append(('fail', n))
    raise SourceError(n)


class _Reader:
  """a source that stays usable after raising (e.g. a reader that reports a corrupt
  record and could continue with the next one), unlike a generator"""

  def __init__(self, n, fail_at, log):
    self.n, self.fail_at, self.log, self.i = n, fail_at, log, 0

  def __iter__(self):
    return self

  def __next__(self):
    i = self.i
    self.i = i + 1
    if i == self.fail_at:
      self.log.append(('fail', i))
      raise SourceError(i)
    if i >= self.n:
      raise StopIteration
    self.log.append(('produce', i))
    return {'a': Shards([i]), 'b': Shards([i + 100])}


def prefetch_to_device(n, size, fail_at, reader=False):
  """delivers exactly the source items, in order, each once, then stops; a source
  error at any position reaches the consumer after the items that preceded it;
  never reads more than `size` items ahead"""
  if fail_at > n:
    raise Reject()
  log = []
  old_jax, old_order = JU.jax, JU._pmap_device_order

  class JP(_JaxProxy):
    @staticmethod
    def device_put_sharded(xs, devices):
      return ('dev', tuple(xs))
  JU.jax = JP(1)
  JU._pmap_device_order = lambda: ['cpu0']
  got = []
  err = None
  try:
    src = _Reader(n, fail_at, log) if reader else _source(n, fail_at, log)
    it = JU.prefetch_to_device(src, size)
    try:
      for item in it:
        got.append(item)
        consumed = len(got)
        produced = len([1 for e in log if e[0] == 'produce'])
        if produced - consumed > size:
          return False
    except SourceError as e:
      err = e
  finally:
    JU.jax, JU._pmap_device_order = old_jax, old_order
  upto = n if fail_at < 0 else fail_at
  want = [{'a': ('dev', (i,)), 'b': ('dev', (i + 100,))} for i in range(upto)]
  if got != want:
    return False
  if fail_at < 0:
    return err is None
  # nothing is read from the source after it has failed
  if log and log[-1][0] != 'fail':
    return False
  return err is not None and err.args == (fail_at,)


# ------------------------------------------------------------ small helpers
PERMS3 = list(itertools.permutations(range(3)))
PERMS4 = list(itertools.permutations(range(4)))


def invert_perm(n, a, b, c, e):
  """_invert_perm(p)[p[i]] == i"""
  p = [a, b, c, e][:n]
  if sorted(p) != list(range(n)):
    raise Reject()
  inv = JU._invert_perm(tuple(p))
  if len(inv) != n:
    return False
  for i in range(n):
    if inv[p[i]] != i or p[inv[i]] != i:
      return False
  return True


class _ScanLax:
  """lax.scan on numpy arrays: the documented loop over the leading axis"""

  @staticmethod
  def scan(f, init, xs, length=None, reverse=False, unroll=1):
    leaves, td = jax.tree_util.tree_flatten(xs)
    n = length if length is not None else leaves[0].shape[0]
    c, ys = init, []
    for i in (range(n - 1, -1, -1) if reverse else range(n)):
      c, y = f(c, jax.tree_util.tree_unflatten(td, [l[i] for l in leaves]))
      ys.append(y)
    if reverse:
      ys = ys[::-1]
    yl = [jax.tree_util.tree_flatten(y) for y in ys]
    stacked = [_real_np.stack([y[0][j] for y in yl]) for j in range(len(yl[0][0]))]
    return c, jax.tree_util.tree_unflatten(yl[0][1], stacked)

  def __getattr__(self, name):
    return getattr(jax.lax, name)


SCAN_SHAPE = (2, 3, 4)
SCAN_AXES = [0, 1, 2, -1, -2, -3]


def scan_in_dim_like_loops(na, a0, a1, a2, keepdims, tree):
  """scan_in_dim == the nested Python loops over the chosen axes IN THE GIVEN ORDER
  (first axis outermost); ys come back in the layout of xs (scanned axes removed
  from / kept as size-1 dims in what the body sees)"""
  axes = tuple(pick(SCAN_AXES, a) for a in (a0, a1, a2)[:na])
  for a in (a0, a1, a2)[na:]:
    if a != 0:
      raise Reject()
  norm = [a % 3 for a in axes]
  if len(set(norm)) != len(norm):
    raise Reject()
  x = _real_np.arange(24).reshape(SCAN_SHAPE) + 1
  xs = {'u': x, 'v': x * 100} if tree else x
  seen = []

  def body(c, xx):
    arr = xx['u'] if tree else xx
    seen.append(tuple(arr.shape))
    s = int(arr.sum()) + (int(xx['v'].sum()) if tree else 0)
    c2 = c * 7 + s                      # order sensitive
    return c2, (arr * 2 + (c % 5))
  saved = JU.lax
  JU.lax = _ScanLax()
  try:
    c, ys = JU.scan_in_dim(body, 1, xs, axis=axes if na != 1 or a0 % 2 else axes[0],
                           keepdims=bool(keepdims))
  finally:
    JU.lax = saved
  # reference: explicit nested loops
  ref_c = 1
  ref_y = _real_np.zeros(SCAN_SHAPE, dtype=x.dtype)
  rest = [d for d in range(3) if d not in norm]
  want_seen = tuple(1 if d in norm else SCAN_SHAPE[d] for d in range(3)) if keepdims \
      else tuple(SCAN_SHAPE[d] for d in rest)
  for idx in itertools.product(*[range(SCAN_SHAPE[a]) for a in norm]):
    sl = [slice(None)] * 3
    for a, i in zip(norm, idx):
      sl[a] = slice(i, i + 1)
    blk = x[tuple(sl)]
    s = int(blk.sum()) + (int(blk.sum()) * 100 if tree else 0)
    ref_y[tuple(sl)] = blk * 2 + (ref_c % 5)
    ref_c = ref_c * 7 + s
  if c != ref_c or any(sh != want_seen for sh in seen):
    return False
  return ys.shape == SCAN_SHAPE and bool((ys == ref_y).all())


def onehot_formula(which):
  """onehot(labels, n)[..., j] == on if labels[...] == j else off, for every integer
  label (in range or not), symbolic on / off values (solver obligation on the real
  function through the symbolic-tensor shim)"""
  import time as _t
  from vf import sym, symnp
  from vf.sym import A, S
  import z3
  t0 = _t.time()
  concrete = sym.CONCRETE['on']
  q = 0
  for shape, n in (((2, 2), 3), ((3,), 1), ((1, 2, 1), 4)):
    lab = A.sym('l', shape, 'int')
    on, off = sym.scalar('on', 1.0), sym.scalar('off', 0.0)
    if concrete:
      import jax.numpy as jnp
      import numpy as np
      labv = np.asarray(lab.to_numpy()).astype(int)
      got = np.asarray(CU.onehot(jnp.asarray(labv), n, sym.to_float(on.t),
                                 sym.to_float(off.t)))
      want = np.where(labv[..., None] == np.arange(n), sym.to_float(on.t),
                      sym.to_float(off.t)).astype(np.float32)
      if got.shape != want.shape or not np.allclose(got, want):
        return dict(status='sat', cex=dict(case='onehot %r %d' % (shape, n)))
      continue
    saved = (CU.jnp, CU.lax)
    CU.jnp, CU.lax = symnp.JNP, symnp.LAX
    try:
      y = A.of(CU.onehot(lab, n, on, off))
    finally:
      CU.jnp, CU.lax = saved
    if y.shape != tuple(shape) + (n,):
      return dict(status='sat', cex=dict(case='onehot shape %r %d' % (shape, n)))
    want = []
    for idx in itertools.product(*[range(d) for d in shape]):
      for j in range(n):
        want.append(S(z3.If(lab.at(idx).t == j, on.t, off.t)))
    status, model, nq = sym.prove_equal([(y, A(want, y.shape))], [], timeout_ms=60000)
    q += nq
    if status != 'unsat':
      return dict(status='sat' if status == 'sat' else 'unknown', queries=q,
                  cex=dict(case='onehot %r %d' % (shape, n),
                           model=sym.model_values(model) if status == 'sat' else {})
                  if status == 'sat' else None, solver_s=_t.time() - t0,
                  detail='onehot differs from the definition')
  return dict(status='unsat', queries=q, solver_s=_t.time() - t0,
              witness=dict(cases=['onehot 3 shapes'], n=3))


def _onehot_run(**kw):
  r = onehot_formula(0)
  if r.get('cex') is not None:
    r['cex'] = dict(r['cex'], family='onehot_formula', arg=0)
  return r


def replay_onehot(case=None, family=None, arg=None, model=None, **kw):
  from vf import sym
  try:
    for seed in range(4):
      sym.set_concrete(True, model if seed == 0 else None, seed)
      if onehot_formula(0).get('status') != 'unsat':
        return False
    return True
  finally:
    sym.set_concrete(False)


def stack_forest_rows(n, k, v):
  """stack_forest: a list of n pytrees with the same structure -> one pytree whose
  leaves hold the n values in order"""
  old = CU.np

  class _NP:
    @staticmethod
    def stack(items):
      return ('stacked', tuple(items))
  CU.np = _NP()
  try:
    forest = [{'a': v + i, 'b': {'c': v * 2 - i}} for i in range(n)]
    out = CU.stack_forest(forest)
  finally:
    CU.np = old
  return out == {'a': ('stacked', tuple(v + i for i in range(n))),
                 'b': {'c': ('stacked', tuple(v * 2 - i for i in range(n)))}}


class Rows:
  """row-list stand-in for shard / unreplicate / stack_forest"""

  def __init__(self, rows, shape):
    self.rows = list(rows)
    self.shape = tuple(shape)

  def reshape(self, shape):
    lead = list(shape[:2])
    n = len(self.rows)
    if lead[1] == -1:
      if lead[0] == 0 or n % lead[0]:
        raise ValueError('cannot reshape')
      lead[1] = n // lead[0]
    if tuple(shape[2:]) != self.shape[1:] or lead[0] * lead[1] != n:
      raise ValueError('cannot reshape')
    return Rows([self.rows[i * lead[1]:(i + 1) * lead[1]] for i in range(lead[0])],
                tuple(lead) + self.shape[1:])

  def __getitem__(self, i):
    return self.rows[i]


def shard_unreplicate(dk, per, v):
  """shard: (d*k, ...) -> (d, k, ...) keeping row order; indivisible sizes raise;
  unreplicate takes replica 0"""
  d = dk
  n = d * per
  x = Rows([v + i for i in range(n)], (n, 4))
  old = CU.jax
  CU.jax = _JaxProxy(d)
  try:
    s = CU.shard({'x': x})['x']
    try:
      CU.shard({'x': Rows([0] * (n + 1), (n + 1, 4))})
      if d != 1:
        return False
    except ValueError:
      pass
  finally:
    CU.jax = old
  if s.shape != (d, per, 4):
    return False
  flat = [r for grp in s.rows for r in grp]
  if flat != [v + i for i in range(n)]:
    return False
  rep = Rows([('r', i) for i in range(d)], (d,))
  return JU.unreplicate({'m': rep})['m'] == ('r', 0)


# ------------------------------------------------------------ PrefetchIterator
from harness import prefetch_model as PM
import itertools as _it

_MODEL = None


def _model():
  global _MODEL
  if _MODEL is None:
    _MODEL = PM.build_model()[0]      # regenerated from /repo's current source
  return _MODEL


class _Src:
  def __init__(self, n, fail):
    self.n, self.fail, self.i = n, fail, 0

  def __next__(self):
    i = self.i
    self.i += 1
    if i == self.fail:
      raise SourceError(i)
    if i >= self.n:
      raise StopIteration
    return i


def _expected(n, fail_at):
  upto = n if fail_at < 0 or fail_at > n else fail_at
  out = [('item', i) for i in range(upto)]
  out.append(('stop',) if fail_at < 0 or fail_at > n else ('error', (fail_at,)))
  return out


NCH = 14


def prefetch_iterator_schedules(n, fail_at, size, c0, c1, c2, c3, c4, c5, c6, c7, c8,
                                c9, c10, c11, c12, c13):
  """under every interleaving of producer and consumer (schedule = symbolic choice
  sequence, consulted whenever both threads can run) the consumer sees exactly the
  source items in order, each once, then StopIteration or the source's error"""
  if fail_at > n:
    raise Reject()
  ch = [c0, c1, c2, c3, c4, c5, c6, c7, c8, c9, c10, c11, c12, c13]
  choices = _it.chain(iter(ch), _it.cycle([False, True]))
  try:
    obs, trace = PM.run_schedule(_model(), _Src(n, fail_at), size, n + 2, choices)
  except PM.Deadlock:
    return False
  return obs == _expected(n, fail_at)


def replay_prefetch_iterator(n, fail_at, size, **cs):
  """re-derive the schedule in the model, force REAL threads through it on the
  real class, compare what the real consumer observes"""
  ch = [cs['c%d' % i] for i in range(NCH)]
  choices = _it.chain(iter(ch), _it.cycle([False, True]))
  try:
    obs, trace = PM.run_schedule(_model(), _Src(n, fail_at), size, n + 2, choices)
  except PM.Deadlock as e:
    trace = e.args[0]
  real = PM.replay_on_real_class(trace, lambda: _Src(n, fail_at), size, n + 2)
  return real == _expected(n, fail_at)


EXPLANATION = (
    'C20: pad_shard_unpad executed on a segment-array stand-in whose batch size b '
    'and min_device_batch are unbounded symbolic ints (device count d enumerated '
    'per job so the arithmetic stays linear); prefetch_to_device on symbolic '
    'source length / buffer size / failing position; _invert_perm on symbolic '
    'permutations; shard/unreplicate on row-list stand-ins.')
ASSUMPTIONS = (
    'flax.jax_utils.np / .jax rebound to stand-ins: np.zeros/concatenate/prod on '
    'segment arrays, jax.local_device_count -> d, jax.device_get identity, '
    'device_put_sharded -> tagging stub',
    'scan_in_dim (real lax.scan), replicate (device placement), onehot (jnp) are '
    'not covered',
    'PrefetchIterator: threads are modelled as coroutines generated from the AST '
    'of the real methods, pre-emption only at synchronisation events (acquire/'
    'release/wait/notify/thread start/source read); Condition semantics as '
    'documented; counterexample schedules are replayed on the real class with '
    'real threads forced through the same event order',
    'jax.core.get_opaque_trace_state compat shim installed by the harness process',
)


def obligations(tier):
  quick = tier == 'quick'
  F = qualnames(JU.pad_shard_unpad)
  G = qualnames(JU.prefetch_to_device)
  dmax = 16 if quick else 64
  return [
      Ob('pad_shard_unpad_all_batch_sizes', pad_shard_unpad,
         dict(d=I(1, dmax), b=Z(1, None), m=Z(0, None), use_m=B(), kwarg=B(),
              static_ret=B()), split=('d', 'kwarg'), timeout=300, funcs=F,
         bounds='device count 1..%d (one job each), batch size b: every int >=1, '
                'min_device_batch: None or every int >=0, positional and keyword '
                'array arguments, static_return both' % dmax),
      Ob('pad_inconsistent_batch', pad_inconsistent,
         dict(d=I(1, 4), b1=I(1, 6), b2=I(1, 6)), split=('d',), timeout=120,
         funcs=F),
      Ob('prefetch_to_device', prefetch_to_device,
         dict(n=I(0, 5 if quick else 7), size=I(1, 4 if quick else 6),
              fail_at=I(-1, 5 if quick else 7), reader=B()), split=('n',), timeout=300,
         funcs=G, bounds='source length, buffer size and failing position (-1 = '
                          'no failure; n = fails after the last item) all symbolic'),
      Ob('prefetch_iterator_schedules', prefetch_iterator_schedules,
         dict(n=I(0, 2 if quick else 3), fail_at=I(-1, 2 if quick else 3),
              size=I(1, 2), **{'c%d' % i: (B() if (not quick or i < 10) else I(0, 0))
                               for i in range(NCH)}),
         split=('n', 'fail_at', 'size'), timeout=900,
         funcs=qualnames(PM.PI.PrefetchIterator.__init__,
                         PM.PI.PrefetchIterator.__next__,
                         PM.PI.PrefetchIterator._prefetch_loop),
         replay=replay_prefetch_iterator,
         bounds='two-thread transition system generated from the AST of the real '
                'class; source length 0..%d, failing position, buffer size 1..2; '
                'schedules = every sequence of %d symbolic choices at points where '
                'both threads can run (then alternating)' % (
                    2 if quick else 3, 10 if quick else NCH)),
      Ob('scan_in_dim_like_loops', scan_in_dim_like_loops,
         dict(na=I(1, 3), a0=I(0, 5), a1=I(0, 5), a2=I(0, 5), keepdims=B(), tree=B()),
         split=('na', 'a0'), timeout=300,
         funcs=qualnames(JU.scan_in_dim, JU._scan_nd, JU._invert_perm),
         bounds='xs [2,3,4] (array or 2-leaf dict), every tuple of 1..3 distinct axes '
                'from 0,1,2,-1,-2,-3 in every order, keepdims',
         assumes=('lax.scan replaced by its documented loop on numpy arrays',)),
      Ob('onehot_formula', _onehot_run, dict(which=I(0, 0)), kind='smt',
         replay=replay_onehot, timeout=300, funcs=qualnames(CU.onehot),
         bounds='label arrays [2,2], [3], [1,2,1] with 3 / 1 / 4 classes; labels '
                'are unbounded symbolic ints, on / off symbolic reals'),
      Ob('stack_forest_rows', stack_forest_rows, dict(n=I(1, 4), k=I(0, 0), v=I(-3, 3)),
         split=('n',), timeout=120, funcs=qualnames(CU.stack_forest)),
      Ob('invert_perm', invert_perm,
         dict(n=I(0, 4), a=I(0, 3), b=I(0, 3), c=I(0, 3), e=I(0, 3)), timeout=300,
         funcs=qualnames(JU._invert_perm), bounds='all permutations of <=4'),
      Ob('shard_unreplicate', shard_unreplicate,
         dict(dk=I(1, 8), per=I(1, 4), v=I(-2, 2)), split=('dk',), timeout=300,
         funcs=qualnames(CU.shard, JU.unreplicate)),
  ]
