"""C07 -- lifted vjp / value_and_grad / jvp / custom_vjp route primals, cotangents and
tangents like JAX autodiff of the pure apply function.

The real flax.core.lift.vjp / value_and_grad / jvp / custom_vjp (and the linen
wrappers nn.vjp / nn.value_and_grad / nn.jvp) run end to end; jax.vjp / jax.jvp /
jax.custom_vjp are replaced by a reference AD on symbolic ints (harness/refad.py).
The oracle is the HAND-DERIVED derivative of the body polynomial, so the reference AD
is checked by the same obligations."""
import jax

import flax.linen as nn
from flax import core
from flax.core import lift as L

from harness import refad as AD
from harness.arr import Arr
from harness.c01 import plain
from harness.c02 import RngStub
from harness.common import qualnames
from vf.ob import Ob
from vf.xh import with_real_dicts, I, B, Reject, pick


class _Jnp:
  ones_like = staticmethod(AD.ones_like)
  zeros_like = staticmethod(AD.zeros_like)

  def __getattr__(self, name):
    import jax.numpy as jnp
    return getattr(jnp, name)


class _JaxProxy:
  vjp = staticmethod(AD.ref_vjp)
  jvp = staticmethod(AD.ref_jvp)
  custom_vjp = AD.ref_custom_vjp
  numpy = _Jnp()

  def __getattr__(self, name):
    return getattr(jax, name)


class ADEnv:
  def __enter__(self):
    self.saved = L.jax
    L.jax = _JaxProxy()
    self.rs = RngStub()
    self.rs.__enter__()
    return self

  def __exit__(self, *a):
    self.rs.__exit__()
    L.jax = self.saved
    return False


def _same(a, b):
  """structural equality of pytrees with Arr / int leaves"""
  la, ta = AD.flatten(a)
  lb, tb = AD.flatten(b)
  if ta != tb or len(la) != len(lb):
    return False
  for x, y in zip(la, lb):
    if isinstance(x, Arr) != isinstance(y, Arr):
      return False
    if isinstance(x, Arr):
      if not x.same(y):
        return False
    elif x != y:
      return False
  return True


CALLS = {'n': 0}


def body(scope, x, k):
  """y = (w . x) * k + c0 * x0 ; the counter collection counts forward passes"""
  w = scope.variable('params', 'w', lambda: Arr([1, 1], (2,)))
  c = scope.variable('stats', 'c', lambda: Arr([0], (1,)))
  n = scope.variable('counter', 'n', lambda: Arr([0], (1,)))
  if scope.is_mutable_collection('counter'):
    n.value = n.value + 1
  return (w.value * x).sum() * k + c.value.at((0,)) * x.at((0,))


def body_aux(scope, x, k):
  return body(scope, x, k), {'twice_x1': x.at((1,)) * 2}


FILTERS = ['params', ['params', 'stats'], True, 'stats']


def _variables(w0, w1, c0, n0):
  return {'params': {'w': Arr([w0, w1], (2,))}, 'stats': {'c': Arr([c0], (1,))},
          'counter': {'n': Arr([n0], (1,))}}


def _want_var_grads(fi, ct, x0, x1, k):
  g = {}
  f = FILTERS[fi]
  if f is True or 'params' in f or f == 'params':
    if f != 'stats':
      g['params'] = {'w': Arr([ct * x0 * k, ct * x1 * k], (2,))}
  if f is True or f == 'stats' or (isinstance(f, list) and 'stats' in f):
    g['stats'] = {'c': Arr([ct * x0], (1,))}
  if f is True:
    g['counter'] = {'n': Arr([0], (1,))}
  return g


@with_real_dicts
def vjp_routing(fi, has_aux, w0, w1, c0, n0, x0, x1, k, ct):
  """lift.vjp: primal output, cotangents of exactly the selected collections and of
  every primal input, aux passed through, forward side effects published once"""
  fi = pick([0, 1, 2, 3], fi)
  vs = _variables(w0, w1, c0, n0)
  x = Arr([x0, x1], (2,))

  def run(scope, x, k):
    out = L.vjp(body_aux if has_aux else body, scope, x, k, has_aux=bool(has_aux),
                vjp_variables=FILTERS[fi])
    y, bwd = out[0], out[1]
    return (y, bwd(ct), out[2] if has_aux else None)
  with ADEnv():
    (y, grads, aux), upd = core.apply(run, mutable=['counter'])(vs, x, k)
  if y != (w0 * x0 + w1 * x1) * k + c0 * x0:
    return False
  vg, gx, gk = grads
  if not _same(plain(vg), _want_var_grads(fi, ct, x0, x1, k)):
    return False
  if not Arr([ct * (w0 * k + c0), ct * w1 * k], (2,)).same(gx):
    return False
  if gk != ct * (w0 * x0 + w1 * x1):
    return False
  if has_aux and not _same(aux, {'twice_x1': x1 * 2}):
    return False
  # forward-pass updates are published exactly once; nothing else is returned
  return set(upd) == {'counter'} and Arr([n0 + 1], (1,)).same(upd['counter']['n'])


@with_real_dicts
def value_and_grad_routing(has_aux, w0, w1, c0, n0, x0, x1, k):
  """lift.value_and_grad: value and the gradient wrt every primal input (cotangent
  one); aux; side effects once"""
  vs = _variables(w0, w1, c0, n0)
  x = Arr([x0, x1], (2,))

  def run(scope, x, k):
    return L.value_and_grad(body_aux if has_aux else body, scope, x, k,
                            has_aux=bool(has_aux))
  with ADEnv():
    out, upd = core.apply(run, mutable=['counter'])(vs, x, k)
  if has_aux:
    y, aux, (gx, gk) = out
    if not _same(aux, {'twice_x1': x1 * 2}):
      return False
  else:
    y, (gx, gk) = out
  if y != (w0 * x0 + w1 * x1) * k + c0 * x0:
    return False
  if not Arr([w0 * k + c0, w1 * k], (2,)).same(gx) or gk != w0 * x0 + w1 * x1:
    return False
  return set(upd) == {'counter'} and Arr([n0 + 1], (1,)).same(upd['counter']['n'])


@with_real_dicts
def jvp_routing(which, w0, w1, c0, n0, x0, x1, k, tw0, tw1, tc0, tx0, tx1, tk):
  """lift.jvp: tangent of the output for tangents of the inputs and of the selected
  variable collections; an empty tangent collection is dropped (which == 1); which
  == 2 also gives the stats collection a tangent"""
  vs = _variables(w0, w1, c0, n0)
  x, tx = Arr([x0, x1], (2,)), Arr([tx0, tx1], (2,))
  vt = {'params': {'w': Arr([tw0, tw1], (2,))}}
  if which == 1:
    vt['stats'] = {}
  elif which == 2:
    vt['stats'] = {'c': Arr([tc0], (1,))}

  def run(scope, x, k):
    return L.jvp(body, scope, (x, k), (tx, tk), vt)
  with ADEnv():
    (y, ty), upd = core.apply(run, mutable=['counter'])(vs, x, k)
  dot = w0 * x0 + w1 * x1
  want = (tw0 * x0 + tw1 * x1 + w0 * tx0 + w1 * tx1) * k + dot * tk + c0 * tx0
  if which == 2:
    want = want + tc0 * x0
  if y != dot * k + c0 * x0 or ty != want:
    return False
  return set(upd) == {'counter'} and Arr([n0 + 1], (1,)).same(upd['counter']['n'])


@with_real_dicts
def custom_vjp_rule(w0, w1, x0, x1, ct, nondiff, n0=0):
  """lift.custom_vjp: the forward value is that of the original function; when it is
  differentiated the user's backward rule is used (a deliberately different one),
  for the selected variables and for the inputs"""
  vs = {'params': {'w': Arr([w0, w1], (2,))}, 'counter': {'n': Arr([n0], (1,))}}
  x = Arr([x0, x1], (2,))

  def f(scope, s, x):
    w = scope.variable('params', 'w', lambda: Arr([1, 1], (2,)))
    n = scope.variable('counter', 'n', lambda: Arr([0], (1,)))
    if scope.is_mutable_collection('counter'):
      n.value = n.value + 1            # a forward-pass update outside grad_vars
    return (w.value * x).sum() * s

  def fwd(scope, s, x):
    return f(scope, s, x), (x, s)

  def bwd(*a):
    res, g = a[-2:]
    xr, sr = res
    var_t = {'params': {'w': Arr([g * 7, g * 11], (2,))}}
    if nondiff:
      return var_t, Arr([g * 5, g * 3], (2,))
    return var_t, g * 13, Arr([g * 5, g * 3], (2,))

  def outer(scope, x):
    cf = L.custom_vjp(f, forward_fn=fwd, backward_fn=bwd, grad_vars='params',
                      nondiff_argnums=(1,) if nondiff else ())   # 0 is the scope
    return cf(scope, 2, x)

  def run(scope, x):
    plain_value = outer(scope, x)
    y, bwd_fn = L.vjp(outer, scope, x, vjp_variables='params')
    return plain_value, y, bwd_fn(ct)
  with ADEnv():
    (pv, y, (vg, gx)), upd = core.apply(run, mutable=['counter'])(vs, x)
    # forward only
    pv1, upd1 = core.apply(outer, mutable=['counter'])(vs, x)
  want = (w0 * x0 + w1 * x1) * 2
  if pv != want or y != want or pv1 != want:
    return False
  # the forward pass's update of a collection outside grad_vars is published: once
  # per executed forward pass (two in `run`, one in the forward-only call)
  if set(upd) != {'counter'} or not Arr([n0 + 2], (1,)).same(upd['counter']['n']):
    return False
  if set(upd1) != {'counter'} or not Arr([n0 + 1], (1,)).same(upd1['counter']['n']):
    return False
  return _same(plain(vg), {'params': {'w': Arr([ct * 7, ct * 11], (2,))}}) and Arr(
      [ct * 5, ct * 3], (2,)).same(gx)


# ------------------------------------------------------------------ linen wrappers
class Lin(nn.Module):
  @nn.compact
  def __call__(self, x, k):
    w = self.variable('params', 'w', lambda: Arr([1, 1], (2,)))
    c = self.variable('stats', 'c', lambda: Arr([0], (1,)))
    n = self.variable('counter', 'n', lambda: Arr([0], (1,)))
    if self.is_mutable_collection('counter'):
      n.value = n.value + 1
    # (nn.value_and_grad insists on an output with .shape == ())
    return Arr([(w.value * x).sum() * k + c.value.at((0,)) * x.at((0,))], ())


class Top(nn.Module):
  mode: int = 0
  fi: int = 0
  ct: object = 1
  tans: tuple = ()

  @nn.compact
  def __call__(self, x, k):
    lin = Lin()
    if self.mode == 0:
      y, bwd = nn.vjp(lambda m, x, k: m(x, k), lin, x, k,
                      vjp_variables=FILTERS[self.fi])
      return y, bwd(self.ct)
    if self.mode == 1:
      return nn.value_and_grad(lambda m, x, k: m(x, k), lin, x, k)
    tx, tk, vt = self.tans
    return nn.jvp(lambda m, x, k: m(x, k), lin, (x, k), (tx, tk), vt)


@with_real_dicts
def linen_wrappers(mode, fi, w0, w1, c0, n0, x0, x1, k, ct, tw0, tx0):
  """nn.vjp / nn.value_and_grad / nn.jvp on a sub-module: same routing, gradients
  addressed relative to the sub-module"""
  fi = pick([0, 1, 2, 3], fi)
  if mode != 0 and fi != 0:
    raise Reject()
  inner = _variables(w0, w1, c0, n0)
  vs = {c: {'Lin_0': v} for c, v in inner.items()}
  x = Arr([x0, x1], (2,))
  tans = (Arr([tx0, 0], (2,)), 0, {'params': {'w': Arr([tw0, 0], (2,))}})
  top = Top(mode=mode, fi=fi, ct=ct, tans=tans)
  with ADEnv():
    out, upd = top.apply(vs, x, k, mutable=['counter'])
  val = (w0 * x0 + w1 * x1) * k + c0 * x0
  sc = lambda t: t.at(()) if isinstance(t, Arr) else t
  if mode == 0:
    y, (vg, gx, gk) = out
    y, gk = sc(y), sc(gk)
    ok = (y == val and _same(plain(vg), _want_var_grads(fi, ct, x0, x1, k)) and Arr(
        [ct * (w0 * k + c0), ct * w1 * k], (2,)).same(gx) and gk == ct * (
            w0 * x0 + w1 * x1))
  elif mode == 1:
    y, (gx, gk) = out
    y, gk = sc(y), sc(gk)
    ok = y == val and Arr([w0 * k + c0, w1 * k], (2,)).same(gx) and gk == (
        w0 * x0 + w1 * x1)
  else:
    y, ty = sc(out[0]), sc(out[1])
    ok = y == val and ty == (tw0 * x0 + w0 * tx0) * k + c0 * tx0
  return bool(ok) and set(upd) == {'counter'} and Arr([n0 + 1], (1,)).same(
      upd['counter']['Lin_0']['n'])


EXPLANATION = (
    'C07: the real lift.vjp / value_and_grad / jvp / custom_vjp and nn.vjp / '
    'nn.value_and_grad / nn.jvp on a polynomial body over a parameter, a statistics '
    'and a counter collection with symbolic int values: primal output, cotangents of '
    'exactly the selected collections (4 filters) and of every primal input, '
    'tangents incl. dropped empty tangent collections, aux, forward side effects '
    'published once, custom backward rule used only when differentiating; compared '
    'with the hand-derived derivative.')
ASSUMPTIONS = (
    'jax.vjp / jax.jvp / jax.custom_vjp are replaced in flax.core.lift by a '
    'reference AD on symbolic ints (dual numbers; reverse mode = one forward pass '
    'per input element), jnp.ones_like by its int analogue: equality with JAX\'s '
    'floating-point AD, reduce_axes, and anything that exists only under tracing is '
    'NOT covered',
    'bodies are polynomials (+, -, *) over 2-element arrays; variables are declared '
    'with Scope.variable (Scope.param abstract-evaluates its initializer with JAX)',
    'jax.core.get_opaque_trace_state compat shim installed by the harness process',
)


def obligations(tier):
  F = qualnames(L.vjp, L._bwd_wrapper, L.value_and_grad, L.jvp, L.custom_vjp, L.pack,
                nn.vjp, nn.value_and_grad, nn.jvp)
  v = I(-2, 2) if tier == 'quick' else I(-6, 6)
  return [
      Ob('vjp_routing', vjp_routing,
         dict(fi=I(0, 3), has_aux=B(), w0=v, w1=v, c0=v, n0=v, x0=v, x1=v, k=v, ct=v),
         split=('fi', 'has_aux'), timeout=600, funcs=F, per_path_timeout=60.0,
         bounds='vjp_variables in %r, has_aux, symbolic values and cotangent'
                % (FILTERS,)),
      Ob('value_and_grad_routing', value_and_grad_routing,
         dict(has_aux=B(), w0=v, w1=v, c0=v, n0=v, x0=v, x1=v, k=v),
         split=('has_aux',), timeout=600, funcs=F, per_path_timeout=60.0),
      Ob('jvp_routing', jvp_routing,
         dict(which=I(0, 2), w0=v, w1=v, c0=v, n0=v, x0=v, x1=v, k=v, tw0=v, tw1=v,
              tc0=v, tx0=v, tx1=v, tk=v), split=('which',), timeout=600, funcs=F,
         per_path_timeout=60.0,
         bounds='variable_tangents for params / params + empty stats / params + '
                'stats'),
      Ob('custom_vjp_rule', custom_vjp_rule,
         dict(w0=v, w1=v, x0=v, x1=v, ct=v, nondiff=B(), n0=v), split=('nondiff',),
         timeout=600, funcs=F, per_path_timeout=60.0),
      Ob('linen_wrappers', linen_wrappers,
         dict(mode=I(0, 2), fi=I(0, 3), w0=v, w1=v, c0=v, n0=v, x0=v, x1=v, k=v, ct=v,
              tw0=v, tx0=v), split=('mode', 'fi'), timeout=600, funcs=F,
         per_path_timeout=60.0),
  ]
