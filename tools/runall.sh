#!/bin/bash
# runs every registered check of the given tier sequentially; logs under .work/logs
tier=${1:-quick}
here="$(cd "$(dirname "$0")/.." && pwd)"
cd "$here"
mkdir -p .work/logs
for p in $(/venv/bin/python -c "import json;print(' '.join(c['property_id'] for c in json.load(open('MANIFEST.json'))['checks']))"); do
  s=$(date +%s)
  /venv/bin/python vf/run.py $p --tier $tier > .work/logs/${p}_${tier}.log 2>&1
  rc=$?
  echo "$p rc=$rc $(( $(date +%s) - s ))s $(grep "^$p tier" .work/logs/${p}_${tier}.log | cut -c1-170)"
  grep "^INCONCLUSIVE\|^HARNESS-ERROR\|^VIOLATION" .work/logs/${p}_${tier}.log | head -5 | cut -c1-200
done
