"""C06 -- lifted vmap / scan equal the per-index calls and the explicit loop.

The real flax.core.lift.vmap / lift.scan (and the linen nn.vmap / nn.scan wrappers on
top of them) run end to end; jax.vmap and flax.core.axes_scan.scan are replaced by
their documented semantics on small arrays of SYMBOLIC ints (harness/arr.py: slice
every leaf along its in-axis, call once per index, stack along the out-axes), and
random.split by a token algebra (split(key, n)[i] = Tok(key, i)).  The oracle is
written directly: per-index calls / a Python loop over slices of each collection."""
import numpy as np
import jax

import flax.linen as nn
from flax import core
from flax.core import lift as L

from harness import arr as AR
from harness.arr import Arr, Tok
from harness.c02 import RngStub
from harness.common import qualnames
from vf.ob import Ob
from vf.xh import with_real_dicts, I, B, Reject, pick

KEY = jax.random.key(0)
N = 3


class _Random:
  split = staticmethod(lambda rng, n: AR.KeyStack(rng, n))
  clone = staticmethod(lambda rng: rng)

  def __getattr__(self, name):
    return getattr(jax.random, name)


class _JaxProxy:
  vmap = staticmethod(AR.ref_vmap)

  def __getattr__(self, name):
    return getattr(jax, name)


class _AxesScan:
  scan = staticmethod(AR.ref_scan)
  broadcast = AR.axes_scan.broadcast

  def __getattr__(self, name):
    return getattr(AR.axes_scan, name)


class LiftEnv:
  def __enter__(self):
    self.saved = (L.jax, L.random, L.axes_scan)
    L.jax, L.random, L.axes_scan = _JaxProxy(), _Random(), _AxesScan()
    self.rs = RngStub()
    self.rs.__enter__()
    return self

  def __exit__(self, *a):
    self.rs.__exit__()
    L.jax, L.random, L.axes_scan = self.saved
    return False


def tok_id(rng):
  """-1 for the un-split stream key, the index for a split one"""
  return rng.i if isinstance(rng, Tok) else -1


def _stack(items, axis):
  return Arr.stack(items, axis)


AXV = [0, 1, -1]


# ------------------------------------------------------------------ lift.vmap
@with_real_dicts
def vmap_like_per_index(pa, split, sa, xa, oa, shared, x0, x1, x2, x3, x4, x5, c0, c1,
                        k0, mutable, inout=False, nidx=3):
  """lift.vmap == calling the body once per index on the slices: 'params' along
  AXV[pa] (or shared when pa == 3), 'stats' along AXV[sa], 'consts' shared (axis
  None), argument x along xa (2 = broadcast), outputs stacked along oa; split rng
  streams give every index its own key, un-split ones the same key."""
  p_axis = None if pa == 3 else pick(AXV, pa)
  s_axis = pick(AXV, sa)
  x_axis = None if xa == 2 else xa
  if p_axis is None and (split or inout):
    raise Reject()            # a shared collection cannot depend on a split stream
  seen_keys = []

  def body(scope, x):
    w = scope.param('w', lambda rng: np.array([10 + tok_id(rng)] * 2))
    seen_keys.append(tok_id(scope.make_rng('params')) if scope.has_rng('params')
                     else None)
    c = scope.variable('stats', 'c', lambda: Arr([0, 0], (2,)))
    xs = x.sum()
    if scope.is_mutable_collection('stats'):
      c.value = c.value + xs
    kk = scope.get_variable('consts', 'k').at((0,)) if (
        shared and scope.has_variable('consts', 'k')) else 0
    return Arr([int(w[0]) * xs, xs + c.value.at((0,)) + kk], (2,))

  phase = {'init': True}

  def run(scope, x):
    pax = p_axis
    if inout:
      # output-only while initialising, input-only afterwards: the lists of in- and
      # out-groups (and their axes) then differ
      pax = L.Out(p_axis) if phase['init'] else L.In(p_axis)
    vaxes = {'params': pax, 'stats': s_axis}
    if shared:
      vaxes['consts'] = None
    return L.vmap(body, variable_axes=vaxes, split_rngs={'params': bool(split)},
                  in_axes=x_axis, out_axes=oa,
                  axis_size=nidx if x_axis is None else None)(scope, x)

  # x: nidx per-index rows of 2
  rows = [Arr([x0, x1], (2,)), Arr([x2, x3], (2,)), Arr([x4, x5], (2,)),
          Arr([x0 + x5, x1 - x4], (2,))][:nidx]
  x = rows[0] if x_axis is None else _stack(rows, x_axis)
  xi = lambda i: rows[0] if x_axis is None else rows[i]
  with LiftEnv():
    y, vs = core.init(run)({'params': KEY}, x)
    vs = core.unfreeze(vs)
    # init: every index initialises its own slice
    wi = [(10 + (i if split else -1)) for i in range(nidx)]
    want_w = np.array([wi[0]] * 2) if p_axis is None else np.stack(
        [np.array([v] * 2) for v in wi], axis=p_axis)
    if not (np.asarray(vs['params']['w']).shape == want_w.shape and (
        np.asarray(vs['params']['w']) == want_w).all()):
      return False
    want_c = _stack([Arr([xi(i).sum()] * 2, (2,)) for i in range(nidx)], s_axis)
    if not want_c.same(vs['stats']['c']):
      return False
    want_y = _stack([Arr([wi[i] * xi(i).sum(), 2 * xi(i).sum()], (2,))
                     for i in range(nidx)], oa)
    if not want_y.same(y):
      return False
    # rng: each index sees its own key iff the stream is split
    if seen_keys[:nidx] != (list(range(nidx)) if split else [-1] * nidx):
      return False
    # apply on caller-chosen state
    phase['init'] = False
    cs = [Arr([c0 + i, c1 - i], (2,)) for i in range(nidx)]
    vs['stats']['c'] = _stack(cs, s_axis)
    if shared:
      vs['consts'] = {'k': Arr([k0, k0 + 1], (2,))}
    kk = k0 if shared else 0
    out = core.apply(run, mutable=['stats'] if mutable else False)(vs, x)
    if mutable:
      y2, upd = out
      new_c = [cs[i] + xi(i).sum() for i in range(nidx)]
      if set(upd) != {'stats'} or not _stack(new_c, s_axis).same(upd['stats']['c']):
        return False
    else:
      y2, new_c = out, cs
    want_y2 = _stack([Arr([wi[i] * xi(i).sum(),
                           xi(i).sum() + new_c[i].at((0,)) + kk], (2,))
                      for i in range(nidx)], oa)
    return want_y2.same(y2)


# ------------------------------------------------------------------ lift.scan
@with_real_dicts
def scan_like_loop(pa, split, use_carry_col, bcast, reverse, xa, oa, use_len,
                   x0, x1, x2, c0, a0, k0, inout=False, nidx=3):
  """lift.scan == the Python loop: 'params' holds one slice per iteration along
  AXV[pa], the 'acc' collection is carried (each iteration sees the previous
  update), 'consts' is broadcast, the carry is threaded, ys are stacked along oa in
  index order for either direction."""
  p_axis = pick(AXV, pa)
  n = nidx
  xvals = [x0, x1, x2, x0 - x2][:n]

  def body(scope, carry, x):
    w = scope.param('w', lambda rng: np.array([10 + tok_id(rng)] * 2))
    xs = x.at((0,)) if x is not None else 1
    kk = scope.get_variable('consts', 'k').at((0,)) if (
        bcast and scope.has_variable('consts', 'k')) else 0
    if use_carry_col and scope.has_variable('acc', 'a'):
      # (a carried collection has to exist before the loop: lax.scan needs the same
      # carry structure on entry and exit)
      acc = scope.variable('acc', 'a', lambda: Arr([a0], (1,)))
      acc.value = acc.value * 2 + xs              # order sensitive
      av = acc.value.at((0,))
    else:
      av = 0
    new_carry = carry * 3 + xs + int(w[0])         # order sensitive
    y = Arr([xs + kk + av, new_carry], (2,))
    return new_carry, y

  phase = {'init': True}

  def run(scope, c, x):
    pax = p_axis
    if inout:
      pax = L.Out(p_axis) if phase['init'] else L.In(p_axis)
    kw = dict(variable_axes={'params': pax}, split_rngs={'params': bool(split)},
              in_axes=xa, out_axes=oa, reverse=bool(reverse))
    if use_carry_col:
      kw['variable_carry'] = 'acc'
    if bcast:
      kw['variable_broadcast'] = 'consts'
    if use_len:
      return L.scan(lambda s, c_: body(s, c_, None), length=n, **kw)(scope, c)
    return L.scan(body, **kw)(scope, c, x)

  rows = [Arr([v], (1,)) for v in xvals]
  x = _stack(rows, xa)
  order = list(range(n - 1, -1, -1)) if reverse else list(range(n))

  def reference(ws, acc0, kk, with_acc):
    carry, acc, ys = c0, acc0, [None] * n
    for i in order:
      xs = 1 if use_len else xvals[i]
      if with_acc:
        acc = acc * 2 + xs
      carry = carry * 3 + xs + ws[i]
      ys[i] = Arr([xs + kk + (acc if with_acc else 0), carry], (2,))
    return carry, acc, ys

  with LiftEnv():
    (cf, ys), vs = core.init(run)({'params': KEY}, c0, x)
    vs = core.unfreeze(vs)
    ws = [10 + (i if split else -1) for i in range(n)]
    want_w = np.stack([np.array([v] * 2) for v in ws], axis=p_axis)
    if not (np.asarray(vs['params']['w']).shape == want_w.shape and (
        np.asarray(vs['params']['w']) == want_w).all()):
      return False
    rc, racc, rys = reference(ws, a0, 0, False)
    if set(vs) != {'params'} or cf != rc or not _stack(rys, oa).same(ys):
      return False
    # apply on caller-chosen state
    phase['init'] = False
    if bcast:
      vs['consts'] = {'k': Arr([k0], (1,))}
    if use_carry_col:
      vs['acc'] = {'a': Arr([a0], (1,))}
    mut = ['acc'] if use_carry_col else False
    out = core.apply(run, mutable=mut)(vs, c0, x)
    rc2, racc2, rys2 = reference(ws, a0, k0 if bcast else 0, bool(use_carry_col))
    if mut:
      (cf2, ys2), upd = out
      if set(upd) != {'acc'} or not Arr([racc2], (1,)).same(upd['acc']['a']):
        return False
    else:
      cf2, ys2 = out
    return cf2 == rc2 and _stack(rys2, oa).same(ys2)


# ------------------------------------------------------------------ linen wrappers
class Cell(nn.Module):
  @nn.compact
  def __call__(self, carry, x):
    w = self.param('w', lambda rng: np.array([10 + tok_id(rng)] * 2))
    cv = 0
    if self.has_variable('counter', 'n'):      # carried: exists before the loop
      cnt = self.variable('counter', 'n', lambda: Arr([0], (1,)))
      cnt.value = cnt.value + 1
      cv = cnt.value.at((0,))
    xs = x.at((0,))
    new = carry * 3 + xs + int(w[0])
    return new, Arr([xs + cv, new], (2,))


class PerExample(nn.Module):
  @nn.compact
  def __call__(self, x):
    w = self.param('w', lambda rng: np.array([10 + tok_id(rng)] * 2))
    return Arr([int(w[0]) * x.sum(), x.sum()], (2,))


@with_real_dicts
def linen_wrappers(which, pa, split, reverse, x0, x1, x2, c0):
  """nn.scan / nn.vmap over a Module == loop / per-index calls (parameters stacked
  along AXV[pa] under the wrapped module's name; a carried counter collection)"""
  p_axis = pick(AXV, pa)
  xvals = [x0, x1, x2]
  ws = [10 + (i if split else -1) for i in range(N)]
  want_w = np.stack([np.array([v] * 2) for v in ws], axis=p_axis)
  with LiftEnv():
    if which == 0:
      S = nn.scan(Cell, variable_axes={'params': p_axis}, variable_carry='counter',
                  split_rngs={'params': bool(split)}, in_axes=0, out_axes=0,
                  reverse=bool(reverse))
      x = _stack([Arr([v], (1,)) for v in xvals], 0)
      (cf, ys), vs = S().init_with_output({'params': KEY}, c0, x)
      vs = core.unfreeze(vs)
      if set(vs) != {'params'} or not (
          np.asarray(vs['params']['w']) == want_w).all():
        return False
      vs['counter'] = {'n': Arr([x0], (1,))}
      (cf, ys), upd = S().apply(vs, c0, x, mutable=['counter'])
      carry, cnt, rys = c0, x0, [None] * N
      for i in (range(N - 1, -1, -1) if reverse else range(N)):
        cnt = cnt + 1
        carry = carry * 3 + xvals[i] + ws[i]
        rys[i] = Arr([xvals[i] + cnt, carry], (2,))
      if cf != carry or not _stack(rys, 0).same(ys):
        return False
      return set(upd) == {'counter'} and Arr([x0 + N], (1,)).same(
          upd['counter']['n'])
    V = nn.vmap(PerExample, variable_axes={'params': p_axis},
                split_rngs={'params': bool(split)}, in_axes=0, out_axes=0)
    rows = [Arr([x0, x1], (2,)), Arr([x1, x2], (2,)), Arr([x2, c0], (2,))]
    y, vs = V().init_with_output({'params': KEY}, _stack(rows, 0))
    vs = core.unfreeze(vs)
    if not (np.asarray(vs['params']['w']) == want_w).all():
      return False
    return _stack([Arr([ws[i] * rows[i].sum(), rows[i].sum()], (2,))
                   for i in range(N)], 0).same(y)


EXPLANATION = (
    'C06: the real lift.vmap / lift.scan / nn.vmap / nn.scan on bodies that read and '
    'update parameter, statistics, carried, broadcast and shared collections with '
    'symbolic int values; every axis assignment from {0, 1, -1}, split / un-split '
    'rng streams, reverse, explicit length, in/out axes; compared with per-index '
    'calls and an explicit Python loop written on the slices.')
ASSUMPTIONS = (
    'jax.vmap and flax.core.axes_scan.scan are replaced by their documented '
    'semantics on small arrays (slice along in-axes, call once per index, stack along '
    'out-axes; the broadcast pass takes the first iteration\'s loop-independent '
    'outputs): axes_scan.scan\'s own jaxpr machinery (transpose_to/from_front, '
    'broadcast pass, constancy check), unroll and remat_scan are NOT covered',
    'random.split(key, n)[i] is the token Tok(key, i); flax.core.scope.random.fold_in '
    'is the identity (key values are decided under C09)',
    'parameters are numpy arrays (Scope.param abstract-evaluates the initializer), '
    'all other state is an array stand-in of symbolic ints; length 3',
    'jax.core.get_opaque_trace_state compat shim installed by the harness process',
)


def obligations(tier):
  quick = tier == 'quick'
  F = qualnames(L.vmap, L.scan, L.pack, L.tree_map_rngs, nn.vmap, nn.scan)
  v = I(-2, 2) if quick else I(-4, 4)
  nd = I(3, 3) if quick else I(2, 4)
  return [
      Ob('vmap_like_per_index', vmap_like_per_index,
         dict(pa=I(0, 3), split=B(), sa=I(0, 2), xa=I(0, 2), oa=I(0, 1), shared=B(),
              x0=v, x1=v, x2=v, x3=v, x4=v, x5=v, c0=v, c1=v, k0=v, mutable=B(),
              inout=B(), nidx=nd),
         split=('pa', 'sa', 'xa') if quick else ('pa', 'sa', 'xa', 'nidx'), timeout=600, funcs=F, per_path_timeout=60.0,
         bounds='3 (thorough 2..4) indices; params axis 0/1/-1/shared, stats axis 0/1/-1, argument '
                'axis 0/1/broadcast, out axis 0/1, a shared read-only collection, '
                'split / un-split params stream, init then apply (mutable or not)'),
      Ob('scan_like_loop', scan_like_loop,
         dict(pa=I(0, 2), split=B(), use_carry_col=B(), bcast=B(), reverse=B(),
              xa=I(0, 1), oa=I(0, 1), use_len=B(), x0=v, x1=v, x2=v, c0=v, a0=v, k0=v, inout=B(), nidx=nd),
         split=('pa', 'use_carry_col', 'bcast', 'reverse') if quick else (
             'pa', 'use_carry_col', 'bcast', 'reverse', 'nidx'), timeout=600, funcs=F,
         per_path_timeout=60.0,
         bounds='3 (thorough 2..4) iterations; scanned params axis 0/1/-1, carried collection, '
                'broadcast collection, reverse, explicit length without xs, in/out '
                'axes 0/1, split / un-split stream'),
      Ob('linen_wrappers', linen_wrappers,
         dict(which=I(0, 1), pa=I(0, 2), split=B(), reverse=B(), x0=v, x1=v, x2=v,
              c0=v), split=('which', 'pa'), timeout=600, funcs=F,
         per_path_timeout=60.0,
         bounds='nn.scan(Cell) with a carried counter, nn.vmap(PerExample); 3 steps'),
  ]
