"""C18 -- Linen<->NNX bridge wrappers behave like the module they wrap."""
import jax
import flax.linen as nn
from flax import nnx
from flax.nnx import bridge
from flax.nnx.bridge import variables as BV
from flax.nnx import variablelib as VL
from flax.core import meta

from harness.common import qualnames
from harness.c01 import plain
from vf.ob import Ob
from vf.xh import I, B, Reject, pick

_KEY = jax.random.key(0)


# ---------------------------------------------------------------- wrapped modules
class LinenCounter(nn.Module):
  """int-valued Linen module: w in 'params', counter in `col` (mutable), optional
  partitioned param"""
  col: str = 'batch_stats'
  boxed: bool = False
  late: bool = False     # sows into a collection that does not exist after init

  @nn.compact
  def __call__(self, x):
    init_w = (lambda: meta.Partitioned(3, names=('in', 'out'))) if self.boxed else (
        lambda: 3)
    w = self.variable('params', 'w', init_w)
    c = self.variable(self.col, 'count', lambda: 0)
    if self.is_mutable_collection(self.col):
      c.value = c.value + 1
    if self.late and not self.is_initializing():
      self.sow('intermediates', 'seen', x)
    wv = w.value
    return x * wv + c.value


class LinenNested(nn.Module):
  @nn.compact
  def __call__(self, x):
    return LinenCounter(name='inner')(LinenCounter(name='outer')(x)) + 1


class LinenDeep(nn.Module):
  """two levels of nesting: block/{outer,inner}/{w,count}"""

  @nn.compact
  def __call__(self, x):
    return LinenNested(name='block')(x) * 2


def _deep_merge(a, b):
  out = dict(a)
  for k, v in b.items():
    out[k] = _deep_merge(out[k], v) if isinstance(v, dict) and isinstance(
        out.get(k), dict) else v
  return out


def _held_variables(m):
  return plain(jax.tree_util.tree_map(lambda v: v, BV.nnx_attrs_to_linen_vars(
      {k: v for k, v in vars(m).items()
       if k not in ('module', 'rngs', '_object__state')})))


class NNXCounter(nnx.Module):
  def __init__(self, w, c, sharded=False):
    self.w = nnx.Param(w, sharding=('in', 'out')) if sharded else nnx.Param(w)
    self.count = nnx.BatchStat(c)
    self.scale = 2                     # static attribute

  def __call__(self, x):
    self.count.value = self.count.value + 1
    return x * self.w.value * self.scale + self.count.value


COLS = ['batch_stats', 'cache', 'params2', 'my_fresh_collection']


class Registry:
  """snapshot / restore of the global name<->type registry"""

  def __enter__(self):
    self.saved = dict(VL.VariableTypeCache)
    return self

  def __exit__(self, *a):
    VL.VariableTypeCache.clear()
    VL.VariableTypeCache.update(self.saved)
    return False


def tonnx_behaves_like_linen(ci, boxed, nested, x, w, c, calls, mut, late=False):
  """ToNNX(module)(x) == module.apply(variables held by the wrapper, x); each
  collection is stored under the matching Variable type; mutable updates are
  propagated into the wrapper's state"""
  col = pick(COLS, ci)
  with Registry():
    nested = pick([0, 1, 2], nested)
    lin = (LinenCounter(col=col, boxed=bool(boxed), late=bool(late)), LinenNested(),
           LinenDeep())[nested]
    if nested:
      col = 'batch_stats'
    m = bridge.ToNNX(lin)
    bridge.lazy_init(m, x)
    top = m.block if nested == 2 else dict(outer=m.outer, inner=m.inner) if nested else None
    # collection <-> Variable type
    want_type = VL.variable_type_from_name(col)
    if nested:
      hw, hc = top['outer']['w'], top['outer']['count']
      if not isinstance(top['inner']['count'], want_type):
        return False
    else:
      hw, hc = m.w, m.count
    if not isinstance(hw, nnx.Param) or type(hc) is not want_type:
      return False
    # set the state the wrapper holds to symbolic values
    hw.value = w
    hc.value = c
    if boxed and not nested:
      if hw.sharding != ('in', 'out'):
        return False
    cc = c
    for i in range(calls):
      variables = BV.nnx_attrs_to_linen_vars(
          {k: v for k, v in vars(m).items()
           if k not in ('module', 'rngs', '_object__state')})
      before = _held_variables(m)
      if mut:
        mcols = [col, 'intermediates'] if late else [col]
        got = m(x, mutable=mcols)
        want, upd = lin.apply(variables, x, mutable=mcols)
        cc = cc + 1
        # the wrapper's state afterwards: what it held, with the updates merged in
        # at every depth -- nothing else is dropped, renamed or changed
        if _held_variables(m) != _deep_merge(before, plain(upd)):
          return False
      else:
        got = m(x)
        want = lin.apply(variables, x)
        if _held_variables(m) != before:
          return False
      if got != want:
        return False
      if not nested and got != x * w + cc:
        return False
      if nested:
        top = m.block if nested == 2 else dict(outer=m.outer, inner=m.inner) if nested else None
        hw, hc = top['outer']['w'], top['outer']['count']
        u = upd[col]['block'] if (mut and nested == 2) else (upd[col] if mut else None)
        if mut and top['inner']['count'].value != u['inner']['count']:
          return False
      else:
        hw, hc = m.w, m.count
      if hc.value != cc or hw.value != w:
        return False
    return True


def tolinen_behaves_like_nnx(x, w, c, sharded, calls, mut):
  """ToLinen(cls).apply == the NNX module on the same state; Variables appear under
  the collection named after their type; state updates round-trip through
  apply's mutable outputs"""
  with Registry():
    lin = bridge.ToLinen(NNXCounter, args=(w, c), kwargs=dict(sharded=bool(sharded)),
                         skip_rng=True)
    y0, vs = lin.init_with_output(_KEY, x)
    if y0 != NNXCounter(w, c, sharded=bool(sharded))(x):
      return False
    # (ToLinen stores the module's state before the initialising call, so the
    # stored state is the constructor's state)
    ref = NNXCounter(w, c, sharded=bool(sharded))
    vs = dict(vs)
    if set(vs) != {'nnx', 'params', 'batch_stats'}:
      return False
    pw = vs['params']['w']
    if sharded:
      if not isinstance(pw, BV.NNXMeta) or pw.value != w or pw.metadata.get(
          'sharding') != ('in', 'out'):
        return False
    elif pw != w:
      return False
    if vs['batch_stats']['count'] != c:
      return False
    for i in range(calls):
      if mut:
        y, upd = lin.apply(vs, x, mutable=['batch_stats'])
        want = ref(x)
        if y != want or upd['batch_stats']['count'] != ref.count.value:
          return False
        vs = {**vs, **upd}
      else:
        y = lin.apply(vs, x)
        probe = NNXCounter(w, ref.count.value, sharded=bool(sharded))
        if y != probe(x):
          return False
    return True


def conversion_roundtrip(ci, v, boxed, depth):
  """linen vars -> nnx attrs -> linen vars preserves values, names, sharding"""
  col = pick(COLS, ci)
  with Registry():
    leaf = meta.Partitioned(v, names=('a', None, 'b')) if boxed else v
    variables = {'params': {'w': leaf}, col: {'count': v + 1}}
    if depth:
      variables = {'params': {'sub': {'w': leaf}, 'k': v + 2},
                   col: {'sub': {'count': v + 1}}}
    attrs = BV.linen_vars_to_nnx_attrs(variables)
    back = BV.nnx_attrs_to_linen_vars(attrs)

    def norm(t):
      if isinstance(t, dict):
        return {k: norm(x) for k, x in t.items()}
      if isinstance(t, meta.Partitioned):
        return ('Partitioned', t.value, t.names)
      return t
    if norm(back) != norm(variables):
      return False
    node = attrs['sub'] if depth else attrs
    pv = node['w']
    if not isinstance(pv, nnx.Param) or pv.value != v:
      return False
    if boxed and pv.sharding != ('a', None, 'b'):
      return False
    cv = node['count']
    return type(cv) is VL.variable_type_from_name(col) and cv.value == v + 1


class _KeyTerm:
  def __init__(self, *t):
    self.t = t

  def __eq__(self, o):
    return isinstance(o, _KeyTerm) and self.t == o.t

  def __hash__(self):
    return hash(self.t)


class LinenDraws(nn.Module):
  """returns the dropout key it is given at apply time"""

  @nn.compact
  def __call__(self, x):
    w = self.variable('params', 'w', lambda: 3)
    key = self.make_rng('dropout') if self.has_rng('dropout') else None
    return key, x * w.value


def tonnx_uses_call_time_rngs(own, call, x, draws):
  """ToNNX(module, rngs=A)(x, rngs=B): the Linen module consumes keys from B when
  B is given (else from A); the stream actually used advances by one per call and
  the other one is untouched"""
  from harness import c09 as C9
  from flax.core import scope as S
  saved = (S._fold_in_static, S._is_valid_rngs, S._is_valid_rng)
  S._fold_in_static = lambda rng, data: _KeyTerm('fold', rng, tuple(data))
  S._is_valid_rngs = lambda r: True
  S._is_valid_rng = lambda r: True
  try:
    with C9.RngEnv(), Registry():
      m = bridge.ToNNX(LinenDraws(), rngs=None)
      bridge.lazy_init(m, x)                      # no rng needed to initialise
      A_ = nnx.Rngs(dropout=1) if own else None
      m.rngs = A_
      for i in range(draws):
        B_ = nnx.Rngs(dropout=2) if call else None
        if A_ is None and B_ is None:
          raise Reject()
        key, y = m(x, rngs=B_) if call else m(x)
        src = B_ if call else A_
        seed = 2 if call else 1
        cnt = 0 if call else i
        want = _KeyTerm('fold', C9.TKey(('fold', ('seed', seed), cnt)), (1,))
        if key != want or y != x * 3:
          return False
        if src.dropout.count.value != C9.TCount(cnt + 1):
          return False
        if call and A_ is not None and A_.dropout.count.value != C9.TCount(0):
          return False
    return True
  finally:
    S._fold_in_static, S._is_valid_rngs, S._is_valid_rng = saved


def registry(n, o0, o1, o2, a0, a1, a2):
  """variable_name_from_type(variable_type_from_name(n)) == n and back; registered
  pairs stay 1-1; unknown names raise unless allow_register"""
  names = ['params', 'batch_stats', 'fresh_a', 'fresh_b']
  with Registry():
    model = dict(VL.VariableTypeCache)
    for o, a in ((o0, a0), (o1, a1), (o2, a2))[:n]:
      name = pick(names, a)
      if o == 0:
        try:
          t = VL.variable_type_from_name(name)
          if name not in model or model[name] is not t:
            return False
        except ValueError:
          if name in model:
            return False
      elif o == 1:
        t = VL.variable_type_from_name(name, allow_register=True)
        if name in model and model[name] is not t:
          return False
        model[name] = t
        if VL.variable_name_from_type(t) != name:
          return False
      elif o == 2:
        # a new type; for even name indices it SUBCLASSES an already registered
        # type (nnx.Param), which must still get its own name
        class Fresh(nnx.Param if a % 2 == 0 else nnx.Variable):
          pass
        Fresh.__name__ = name + '_T'
        try:
          VL.register_variable_name(name, Fresh)
          if name in model:
            return False
          model[name] = Fresh
        except ValueError:
          if name not in model:
            return False
      else:
        for nm, t in model.items():
          if VL.variable_type_from_name(nm) is not t:
            return False
          if VL.variable_name_from_type(t) != [k for k, tt in model.items()
                                               if tt == t][0]:
            return False
    return dict(VL.VariableTypeCache) == model


EXPLANATION = (
    'C18: ToNNX around int-valued Linen modules (counter in one of 4 collections, '
    'optional Partitioned param, nested) and ToLinen around an NNX counter module '
    '(optional sharding metadata), symbolic input / parameter / counter values, '
    '<=3 calls with and without mutable=; conversion both ways; registry histories.')
ASSUMPTIONS = (
    'wrapped modules avoid real RNG/array ops (variables are initialised without '
    'rng; ToLinen(skip_rng=True); the RNG-routing obligation runs with jax.random '
    'and _fold_in_static replaced by term constructors); nesting inside a parent of the other API beyond '
    'one level is not covered',
    'jax.core.get_opaque_trace_state compat shim installed by the harness process',
)


def obligations(tier):
  quick = tier == 'quick'
  F = qualnames(bridge.ToNNX.__call__, bridge.lazy_init, bridge.ToLinen.__call__,
                bridge.ToLinen._update_variables, BV.linen_vars_to_nnx_attrs,
                BV.nnx_attrs_to_linen_vars, BV.to_nnx_var, BV.to_linen_var,
                VL.variable_type_from_name, VL.variable_name_from_type,
                VL.register_variable_name)
  v = I(-3, 3)
  return [
      Ob('tonnx_behaves_like_linen', tonnx_behaves_like_linen,
         dict(ci=I(0, len(COLS) - 1), boxed=B(), nested=I(0, 2), late=B(), x=v, w=v, c=v,
              calls=I(1, 2 if quick else 3), mut=B()),
         split=('ci', 'boxed', 'nested', 'mut'), timeout=900, funcs=F,
         per_path_timeout=90.0,
         bounds='4 collections, boxed/unboxed param, flat/nested, <=3 calls'),
      Ob('tonnx_uses_call_time_rngs', tonnx_uses_call_time_rngs,
         dict(own=B(), call=B(), x=v, draws=I(1, 2)), timeout=600, funcs=F,
         per_path_timeout=90.0,
         bounds='wrapper-held and/or call-time Rngs, 1..2 calls; jax.random is a '
                'term algebra'),
      Ob('tolinen_behaves_like_nnx', tolinen_behaves_like_nnx,
         dict(x=v, w=v, c=v, sharded=B(), calls=I(1, 2 if quick else 3), mut=B()),
         split=('sharded', 'mut'), timeout=900, funcs=F, per_path_timeout=90.0),
      Ob('conversion_roundtrip', conversion_roundtrip,
         dict(ci=I(0, len(COLS) - 1), v=v, boxed=B(), depth=B()),
         split=('ci',), timeout=600, funcs=F),
      Ob('registry_histories', registry,
         dict(n=I(0, 3), o0=I(0, 3), o1=I(0, 3), o2=I(0, 3), a0=I(0, 3),
              a1=I(0, 3), a2=I(0, 3)), split=('n', 'o0'), timeout=600, funcs=F,
         bounds='<=3 lookup / get-or-register / register / audit ops over 4 names'),
  ]
