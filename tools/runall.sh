#!/bin/bash
# runs every registered check of the given tier sequentially; logs under .work/
tier=${1:-quick}
cd /verif
mkdir -p .work/logs
for p in $(/venv/bin/python -c "import json;print(' '.join(c['property_id'] for c in json.load(open('MANIFEST.json'))['checks']))"); do
  s=$(date +%s)
  /venv/bin/python vf/run.py $p --tier $tier > .work/logs/${p}_${tier}.log 2>&1
  rc=$?
  echo "$p rc=$rc $(( $(date +%s) - s ))s $(grep "^$p tier" .work/logs/${p}_${tier}.log | cut -c1-160)"
done
