"""C17 -- optimizer wrappers apply exactly the optax update; metrics ignore batching."""
import itertools
import time

import jax
import numpy as np
import z3

from flax.training import train_state as TS
from flax.nnx.training import optimizer as OPT
from flax.nnx.training import metrics as MET
from flax.nnx import helpers as HLP
from flax import nnx
from flax.core import FrozenDict

from harness.common import qualnames
from vf.ob import Ob
from vf import sym
from vf.sym import S, A
from vf.xh import I, B, Reject, pick


# ------------------------------------------------------------ term algebra
class Tm:
  """opaque value: results of the uninterpreted optax transformation"""

  def __init__(self, *t):
    self.t = t

  def __eq__(self, o):
    return isinstance(o, Tm) and self.t == o.t

  def __hash__(self):
    return hash(self.t)

  def __repr__(self):
    return 'Tm%r' % (self.t,)


def _leafmap(f, *trees):
  # like optax: map over the array leaves; nnx.VariableState wrappers are pytree
  # nodes and are preserved
  return jax.tree_util.tree_map(f, *trees, is_leaf=lambda x: isinstance(x, Tm))


def _val(x):
  return x.value if isinstance(x, nnx.VariableState) else x


class UTx:
  """uninterpreted GradientTransformation: update(g, s, p) = (U(g,s,p), S(g,s,p))"""

  def __init__(self):
    self.calls = []

  def init(self, params):
    return {'mu': _leafmap(lambda p: Tm('S0', _val(p)), params), 'count': Tm('c0')}

  def update(self, grads, state, params=None, **extra):
    self.calls.append((grads, state, params, extra))
    upd = _leafmap(lambda g, s, p: Tm('U', _val(g), _val(s), _val(p)), grads,
                   state['mu'], params)
    new = {'mu': _leafmap(lambda g, s, p: Tm('S', _val(g), _val(s), _val(p)),
                          grads, state['mu'], params),
           'count': Tm('c+', state['count'])}
    return upd, new


class _Optax:
  """optax.apply_updates by hand == p + u per leaf; here an injective constructor"""
  calls = []

  @staticmethod
  def apply_updates(params, updates):
    _Optax.calls.append((params, updates))

    return _leafmap(lambda p, u: Tm('apply', p, u), params, updates)

  def __getattr__(self, name):
    import optax
    return getattr(optax, name)


def plain(t):
  if isinstance(t, (dict, FrozenDict)):
    return {k: plain(v) for k, v in t.items()}
  return t


def linen_train_state(shape, steps, overwrite, frozen):
  """TrainState.apply_gradients == tx.update followed by apply_updates by hand;
  step+1; old instance intact; OVERWRITE_WITH_GRADIENT branch"""
  params = pick([lambda: {'w': Tm('w'), 'b': Tm('b')},
                 lambda: {'dense': {'kernel': Tm('k'), 'bias': Tm('bb')},
                          'out': {'kernel': Tm('k2')}},
                 lambda: {}], shape)()
  if overwrite:
    params = {'params': params, TS.OVERWRITE_WITH_GRADIENT: {'fp8': Tm('meta')}}
  if frozen:
    params = FrozenDict(params)
  saved = TS.optax
  TS.optax = _Optax()
  try:
    tx = UTx()
    st = TS.TrainState.create(apply_fn=None, params=params, tx=tx)
    inner0 = plain(params)['params'] if overwrite else plain(params)
    if st.step != 0 or plain(st.opt_state) != {
        'mu': jax.tree_util.tree_map(lambda p: Tm('S0', p), inner0,
                                     is_leaf=lambda x: isinstance(x, Tm)),
        'count': Tm('c0')}:
      return False
    for k in range(steps):
      inner = plain(st.params)['params'] if overwrite else plain(st.params)
      real_inner = st.params['params'] if overwrite else st.params
      grads_real = jax.tree_util.tree_map(lambda p: Tm('g', k, p), real_inner,
                                          is_leaf=lambda x: isinstance(x, Tm))
      grads_inner = plain(grads_real)
      grads = ({'params': grads_real, TS.OVERWRITE_WITH_GRADIENT: {
          'fp8': Tm('gmeta', k)}} if overwrite else grads_real)
      old = st
      old_params, old_opt, old_step = plain(st.params), plain(st.opt_state), st.step
      ncalls = len(tx.calls)
      st = st.apply_gradients(grads=grads)
      if len(tx.calls) != ncalls + 1:
        return False
      g_, s_, p_, _ = tx.calls[-1]
      if plain(g_) != grads_inner or plain(s_) != old_opt or plain(p_) != inner:
        return False
      mu = old_opt['mu']
      want_inner = jax.tree_util.tree_map(
          lambda p, g, s: Tm('apply', p, Tm('U', g, s, p)), inner, grads_inner, mu,
          is_leaf=lambda x: isinstance(x, Tm))
      want_params = ({'params': want_inner, TS.OVERWRITE_WITH_GRADIENT: {
          'fp8': Tm('gmeta', k)}} if overwrite else want_inner)
      if plain(st.params) != want_params:
        return False
      want_opt = {'mu': jax.tree_util.tree_map(
          lambda p, g, s: Tm('S', g, s, p), inner, grads_inner, mu,
          is_leaf=lambda x: isinstance(x, Tm)), 'count': Tm('c+', old_opt['count'])}
      if plain(st.opt_state) != want_opt or st.step != old_step + 1:
        return False
      # functional: the old instance is intact and distinct
      if st is old or plain(old.params) != old_params or plain(
          old.opt_state) != old_opt or old.step != old_step:
        return False
  finally:
    TS.optax = saved
  return True


class Model(nnx.Module):
  def __init__(self, layout):
    # layout bit i: variable i is a Param (1) or a BatchStat (0)
    mk = lambda i, nm: (nnx.Param if (layout >> i) & 1 else nnx.BatchStat)(Tm(nm))
    self.a = mk(0, 'a')
    self.sub = Sub(mk(1, 'b'), mk(2, 'c'))
    self.static = 7


class Sub(nnx.Module):
  def __init__(self, b, c):
    self.b = b
    self.c = c


class _Jnp:
  uint32 = 'uint32'

  @staticmethod
  def array(v, dtype=None):
    return v


WRT = [lambda: nnx.Param, lambda: nnx.BatchStat, lambda: ...,
       lambda: nnx.All(nnx.Param, nnx.PathContains('sub'))]


def nnx_optimizer(layout, wi, steps):
  """nnx.Optimizer.update: Variables selected by wrt get apply_updates(p, U(...)),
  everything else untouched, opt state = S(...), step+1, update called once"""
  model = Model(layout)
  wrt = pick(WRT, wi)()
  vars_ = {'a': model.a, ('sub', 'b'): model.sub.b, ('sub', 'c'): model.sub.c}
  is_param = {k: isinstance(v, nnx.Param) for k, v in vars_.items()}
  sel = {k: (is_param[k] if wi == 0 else (not is_param[k]) if wi == 1 else True
             if wi == 2 else (is_param[k] and k != 'a')) for k in vars_}
  saved = (OPT.optax, OPT.jnp)
  OPT.optax, OPT.jnp = _Optax(), _Jnp()
  try:
    tx = UTx()
    opt = nnx.Optimizer(model, tx, wrt=wrt)
    if opt.step.value != 0:
      return False
    cur = {k: v.value for k, v in vars_.items()}
    mu = {k: Tm('S0', cur[k]) for k in vars_ if sel[k]}
    cnt = Tm('c0')
    for s in range(steps):
      grads = nnx.state(model, wrt)
      grads = jax.tree_util.tree_map(
          lambda v: v.replace(Tm('g', s, v.value)), grads,
          is_leaf=lambda x: isinstance(x, nnx.VariableState))
      n = len(tx.calls)
      opt.update(grads)
      if len(tx.calls) != n + 1:
        return False
      for k, v in vars_.items():
        if sel[k]:
          g = Tm('g', s, cur[k])
          want = Tm('apply', cur[k], Tm('U', g, mu[k], cur[k]))
          mu[k] = Tm('S', g, mu[k], cur[k])
          cur[k] = want
        if v.value != cur[k]:
          return False
      cnt = Tm('c+', cnt)
      if opt.step.value != s + 1 or model.static != 7:
        return False
      # the optimizer state the wrapper holds
      got_state = OPT._opt_state_variables_to_state(opt.opt_state)
      got_mu = {('sub', p[1]) if len(p) == 2 else p[0]: x.value for p, x in
                nnx.to_flat_state(got_state['mu'])} if got_state['mu'] else {}
      if got_mu != mu or got_state['count'] != cnt:
        return False
    # identity of the caller's objects is kept
    return model.a is vars_['a'] and model.sub.b is vars_[('sub', 'b')]
  finally:
    OPT.optax, OPT.jnp = saved


def nnx_train_state(layout, steps):
  """nnx.TrainState.apply_gradients: params = apply_updates(p, U(g,s,p)), state =
  S(g,s,p), step+1, one update call, old instance intact"""
  model = Model(layout)
  graphdef, params, rest = nnx.split(model, nnx.Param, ...)
  saved = (HLP.optax, HLP.jnp)

  class J:
    asarray = staticmethod(lambda v: v)
  HLP.optax, HLP.jnp = _Optax(), J
  try:
    tx = UTx()
    st = nnx.TrainState.create(graphdef, params=params, tx=tx)
    flat = lambda state: {p: v.value for p, v in nnx.to_flat_state(state)}
    cur = flat(params)
    mu = {k: Tm('S0', v) for k, v in cur.items()}
    if st.step != 0 or flat(st.opt_state['mu']) != mu:
      return False
    for k in range(steps):
      grads = jax.tree_util.tree_map(lambda v: Tm('g', k, v), st.params,
                                     is_leaf=lambda x: isinstance(x, Tm))
      old, old_params, old_step = st, flat(st.params), st.step
      n = len(tx.calls)
      st = st.apply_gradients(grads)
      if len(tx.calls) != n + 1 or st is old:
        return False
      want = {p: Tm('apply', v, Tm('U', Tm('g', k, v), mu[p], v))
              for p, v in cur.items()}
      mu = {p: Tm('S', Tm('g', k, v), mu[p], v) for p, v in cur.items()}
      cur = want
      if flat(st.params) != cur or flat(st.opt_state['mu']) != mu:
        return False
      if st.step != old_step + 1 or flat(old.params) != old_params:
        return False
    # the model object the state was split from is untouched
    return {p: v.value for p, v in nnx.to_flat_state(nnx.state(model, nnx.Param))
            } == flat(params)
  finally:
    HLP.optax, HLP.jnp = saved


# ------------------------------------------------------------ metrics (z3 reals)
def _partitions(n, k):
  """all ways to cut range(n) into k consecutive non-empty batches"""
  for cuts in itertools.combinations(range(1, n), k - 1):
    b = [0] + list(cuts) + [n]
    yield [(b[i], b[i + 1]) for i in range(k)]


def _inject(metric):
  """accumulator state as symbolic scalars (zero), not jnp arrays"""
  for name in ('total', 'count', 'mean', 'm2'):
    if hasattr(metric, name):
      getattr(metric, name).value = S(0)


def metrics_ignore_batching(n, with_reset, shape2d=0):
  """Average / Welford / Accuracy / MultiMetric over every partition of a stream
  of n symbolic reals into 1..3 consecutive batches == statistic of the stream"""
  t0 = time.time()
  saved = MET.jnp
  queries = 0
  xs = A.sym('x', (n,))
  logits = A.sym('l', (n, 3))
  labels = A.sym('y', (n,), 'int')
  lab_ok = [z3.And(v.t >= 0, v.t <= 2) for v in labels.data]

  class J:
    float32, int32, uint32, int64 = 'float32', 'int32', 'uint32', 'int64'

    @staticmethod
    def array(v, dtype=None):
      return S(v)

    @staticmethod
    def astype(x, dt):
      return x.astype(dt)
  MET.jnp = J
  try:
    total = S(0)
    for v in xs.data:
      total = total + v
    mean_ref = total / n
    var_ref = S(0)
    for v in xs.data:
      var_ref = var_ref + (v - mean_ref) * (v - mean_ref)
    var_ref = var_ref / n
    hits = S(0)
    am = logits.argmax(-1)
    am = am if isinstance(am, A) else A([am], (1,))
    for a_, y_ in zip(am.data, labels.data):
      hits = hits + S(z3.If(a_.t == y_.t, z3.RealVal(1), z3.RealVal(0)))
    acc_ref = hits / n
    for k in range(1, min(n, 3) + 1):
      for part in _partitions(n, k):
        avg, wel, acc = MET.Average(), MET.Welford(), MET.Accuracy()
        multi = MET.MultiMetric(loss=MET.Average('values'),
                                accuracy=MET.Accuracy())
        ms = [avg, wel, acc, multi.loss, multi.accuracy]
        for m in ms:
          _inject(m)
        if with_reset:
          # garbage first, then reset: must not influence the result
          avg.update(values=A.sym('junk', (2,)))
          wel.update(values=A.sym('junk', (2,)))
          for m in (avg, wel, acc, multi):
            m.reset()
          for m in ms:
            if not isinstance(m.count.value, S):
              m.count.value = S(m.count.value)
        for lo, hi in part:
          vals, lg, lb = xs[lo:hi], logits[lo:hi], labels[lo:hi]
          if shape2d and (hi - lo) % 2 == 0:
            # the same values handed over as a [2, k] batch (e.g. [batch, time])
            vals = vals.reshape(2, (hi - lo) // 2)
            lg = lg.reshape(2, (hi - lo) // 2, 3)
            lb = lb.reshape(2, (hi - lo) // 2)
          avg.update(values=vals)
          wel.update(values=vals)
          acc.update(logits=lg, labels=lb)
          multi.update(values=vals, logits=lg, labels=lb)
        st = wel.compute()
        mc = multi.compute()
        m2 = wel.m2.value
        pairs = [(avg.compute(), mean_ref), (st.mean, mean_ref),
                 (m2 / n, var_ref), (acc.compute(), acc_ref),
                 (mc['loss'], mean_ref), (mc['accuracy'], acc_ref),
                 (wel.count.value, S(n))]
        status, model, nq = sym.prove_equal(pairs, lab_ok)
        queries += nq
        if status != 'unsat':
          cex = None
          if status == 'sat' and not isinstance(model, str):
            cex = dict(n=n, part=[list(p) for p in part], with_reset=with_reset,
                       shape2d=shape2d,
                       xs=[_q(model, v.t) for v in xs.data],
                       logits=[_q(model, v.t) for v in logits.data],
                       labels=[int(str(model.eval(v.t, model_completion=True)))
                               for v in labels.data])
          return dict(status=status if cex else 'unknown', cex=cex,
                      queries=queries, detail='partition %r' % (part,),
                      solver_s=time.time() - t0)
  finally:
    MET.jnp = saved
  return dict(status='unsat', queries=queries, solver_s=time.time() - t0,
              witness=dict(n=n, partitions='all cuts into <=3 batches'))


def _q(model, t):
  v = model.eval(t, model_completion=True)
  try:
    return float(v.numerator_as_long()) / float(v.denominator_as_long())
  except Exception:
    return float(str(v).replace('?', ''))


def replay_metrics(n, part, with_reset, xs, logits, labels, shape2d=0):
  """real jnp float run of the counterexample; True = property holds (1e-4)"""
  import jax.numpy as jnp
  xs_ = jnp.asarray(xs, jnp.float32)
  lg = jnp.asarray(logits, jnp.float32).reshape(n, 3)
  lb = jnp.asarray(labels, jnp.int32)
  avg, wel, acc = MET.Average(), MET.Welford(), MET.Accuracy()
  if with_reset:
    avg.update(values=jnp.ones(2) * 9)
    wel.update(values=jnp.ones(2) * 9)
    avg.reset(), wel.reset(), acc.reset()
  for lo, hi in part:
    v_, l_, y_ = xs_[lo:hi], lg[lo:hi], lb[lo:hi]
    if shape2d and (hi - lo) % 2 == 0:
      v_ = v_.reshape(2, -1)
      l_ = l_.reshape(2, -1, 3)
      y_ = y_.reshape(2, -1)
    avg.update(values=v_)
    wel.update(values=v_)
    acc.update(logits=l_, labels=y_)
  x64 = np.asarray(xs, np.float64)
  ok = abs(float(avg.compute()) - x64.mean()) <= 1e-4 * (1 + abs(x64.mean()))
  ok &= abs(float(wel.compute().mean) - x64.mean()) <= 1e-4 * (1 + abs(x64.mean()))
  ok &= abs(float(wel.m2.value) / n - x64.var()) <= 1e-3 * (1 + abs(x64.var()))
  want_acc = (np.asarray(logits).reshape(n, 3).argmax(-1) == np.asarray(
      labels)).mean()
  ok &= abs(float(acc.compute()) - want_acc) <= 1e-6
  return bool(ok)


EXPLANATION = (
    'C17: TrainState.apply_gradients and nnx.Optimizer.update executed with an '
    'UNINTERPRETED optax transformation (update/init return injective terms, so '
    'the result covers every transformation parametrically) and apply_updates as '
    'an injective constructor; CrossHair enumerates tree shapes, Variable-type '
    'layouts, wrt filters and step counts.  Metrics: the real Average/Welford/'
    'Accuracy/MultiMetric code runs on symbolic real arrays and z3 proves the '
    'result equals the statistic of the concatenated stream for every partition.')
ASSUMPTIONS = (
    'optax.apply_updates and the transformation are uninterpreted (their own '
    'arithmetic is not checked); floats are treated as reals in the metric proofs; '
    'sqrt in Welford.compute is not checked (variance via m2/count is)',
    'jnp.array(...) in the optimizer/metrics modules is rebound to scalar stand-ins',
    'jax.core.get_opaque_trace_state compat shim installed by the harness process',
)


def obligations(tier):
  quick = tier == 'quick'
  F = qualnames(TS.TrainState.apply_gradients, TS.TrainState.create)
  G = qualnames(OPT.Optimizer.__init__, OPT.Optimizer.update,
                OPT._wrap_optimizer_state, OPT._opt_state_variables_to_state,
                OPT._update_opt_state)
  H = qualnames(MET.Average.update, MET.Average.compute, MET.Welford.update,
                MET.Welford.compute, MET.Accuracy.update, MET.MultiMetric.update,
                MET.MultiMetric.compute, MET.Average.reset, MET.Welford.reset)
  obs = [
      Ob('linen_train_state', linen_train_state,
         dict(shape=I(0, 2), steps=I(1, 3), overwrite=B(), frozen=B()),
         timeout=600, funcs=F,
         bounds='3 parameter tree shapes, 1..3 steps, OVERWRITE_WITH_GRADIENT '
                'on/off, dict/FrozenDict params, uninterpreted transformation'),
      Ob('nnx_optimizer', nnx_optimizer,
         dict(layout=I(0, 7), wi=I(0, 3), steps=I(1, 3)), split=('layout',),
         timeout=600, funcs=G,
         bounds='3 Variables each Param/BatchStat (8 layouts), 4 wrt filters, '
                '1..3 steps'),
  ]
  obs.append(Ob('nnx_train_state', nnx_train_state,
                dict(layout=I(0, 7), steps=I(1, 3)), split=('layout',), timeout=600,
                funcs=qualnames(HLP.TrainState.create,
                                HLP.TrainState.apply_gradients),
                bounds='8 Variable-type layouts, 1..3 steps'))
  # (streams of 6 values, and 5 values with a reset in between, leave z3's
  # non-linear arithmetic without an answer in 300 s: not part of the tier)
  for n in range(1, (4 if quick else 5) + 1):
    for wr, s2 in ((0, 0), (1, 0), (0, 1)):
      if s2 and n < 2:
        continue
      if n == 5 and wr:
        continue
      obs.append(
          Ob('metrics_ignore_batching_n%d_reset%d_2d%d' % (n, wr, s2),
             metrics_ignore_batching,
             dict(n=I(n, n), with_reset=I(wr, wr), shape2d=I(s2, s2)),
             kind='smt', split=('n', 'with_reset', 'shape2d'), timeout=900, funcs=H,
             replay=replay_metrics,
             bounds='stream of %d symbolic reals / logits rows (3 classes) / '
                    'labels, every partition into <=3 consecutive batches' % n))
  return obs
