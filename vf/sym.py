"""Engine C: symbolic-tensor execution.  Arrays of concrete small shape whose
elements are z3 terms (Real / Int / Bool); the *real* flax numerical code runs on
them once per configuration and yields closed-form output terms which z3 compares
with a reference.  Floats are treated as reals (stated abstraction)."""
import itertools
import math

import numpy as np
import z3


# ---- concrete mode (replay): symbols become numeric constants ----------------
CONCRETE = {'on': False, 'values': {}, 'seed': 0}


NOISY_MEAN = {'on': False, 'assume': []}


def set_concrete(on, values=None, seed=0):
  CONCRETE['on'], CONCRETE['values'], CONCRETE['seed'] = on, dict(values or {}), seed


def _concrete_value(name, sort, k):
  vals = CONCRETE['values']
  if name in vals:
    v = vals[name]
    return bool(v) if sort == 'bool' else v
  import random
  r = random.Random('%s|%s' % (CONCRETE['seed'], name))
  if sort == 'bool':
    return r.random() < 0.6
  if sort == 'int':
    return r.randint(1, 3) if name.startswith('len') else r.randint(0, 1)
  if name.startswith(('var', 'rv')):
    return r.randint(1, 8) / 4.0          # variances are positive
  return r.randint(-8, 8) / 4.0


def scalar(name, default=0.25):
  """symbolic real scalar (eps, momentum, ...) or its concrete value in replay"""
  if CONCRETE['on']:
    return S(float(CONCRETE['values'].get(name, default)))
  return S(z3.Real(name))


def to_float(t):
  t = z3.simplify(_num(t) if not z3.is_bool(t) else z3.If(t, z3.RealVal(1),
                                                          z3.RealVal(0)))
  if z3.is_rational_value(t):
    return float(t.numerator_as_long()) / float(t.denominator_as_long())
  if z3.is_algebraic_value(t):
    return float(t.approx(12).as_fraction())
  raise ValueError('not a numeric constant: %s' % t)


def _z(v):
  if isinstance(v, S):
    return v.t
  if isinstance(v, bool):
    return z3.BoolVal(v)
  if isinstance(v, (int, np.integer)):
    return z3.IntVal(int(v))
  if isinstance(v, (float, np.floating)):
    import fractions
    fr = fractions.Fraction(float(v))
    return z3.RealVal('%d/%d' % (fr.numerator, fr.denominator))
  if isinstance(v, z3.ExprRef):
    return v
  raise TypeError(type(v))


def _num(t):
  """Bool -> 0/1 for arithmetic"""
  if z3.is_bool(t):
    return z3.If(t, z3.RealVal(1), z3.RealVal(0))
  if z3.is_int(t):
    return z3.ToReal(t)
  return t


def _DIV(a, b):
  return _num(a) / _num(b)


class S:
  """scalar wrapper around a z3 term.  Returns NotImplemented for foreign operands
  so that container classes (nnx.Variable) can apply their reflected operators."""
  __array_priority__ = 1000

  def __init__(self, t):
    self.t = _z(t) if not isinstance(t, z3.ExprRef) else t

  # -- helpers
  @staticmethod
  def _ok(o):
    return isinstance(o, (S, int, float, bool, np.integer, np.floating))

  def _bin(self, o, f, rev=False):
    if not S._ok(o):
      return NotImplemented
    a, b = self.t, _z(o)
    if not (z3.is_int(a) and z3.is_int(b) and f is not _DIV):
      a, b = _num(a), _num(b)          # integer arithmetic only when both are ints
    if rev:
      a, b = b, a
    return S(z3.simplify(f(a, b)))

  def __add__(self, o): return self._bin(o, lambda a, b: a + b)
  def __radd__(self, o): return self._bin(o, lambda a, b: a + b, True)
  def __sub__(self, o): return self._bin(o, lambda a, b: a - b)
  def __rsub__(self, o): return self._bin(o, lambda a, b: a - b, True)
  def __mul__(self, o): return self._bin(o, lambda a, b: a * b)
  def __rmul__(self, o): return self._bin(o, lambda a, b: a * b, True)
  def __truediv__(self, o): return self._bin(o, _DIV)
  def __rtruediv__(self, o): return self._bin(o, _DIV, True)

  def __mod__(self, o):
    a, b = self.t, _z(o)
    if not (z3.is_int(a) and z3.is_int(b)):
      return NotImplemented
    return S(a % b)           # z3 mod == Python % for a positive modulus

  def __neg__(self): return S(-(self.t if z3.is_int(self.t) else _num(self.t)))
  def __pos__(self): return self

  def __pow__(self, k):
    if isinstance(k, (int, np.integer)) and k >= 0:
      r = z3.RealVal(1)
      for _ in range(int(k)):
        r = r * _num(self.t)
      return S(r)
    if k == 0.5:
      return sqrt(self)
    return NotImplemented

  def _cmp(self, o, f):
    if not S._ok(o):
      return NotImplemented
    return S(f(_num(self.t), _num(_z(o))))

  def __ge__(self, o): return self._cmp(o, lambda a, b: a >= b)
  def __gt__(self, o): return self._cmp(o, lambda a, b: a > b)
  def __le__(self, o): return self._cmp(o, lambda a, b: a <= b)
  def __lt__(self, o): return self._cmp(o, lambda a, b: a < b)

  def __eq__(self, o):            # elementwise equality -> symbolic Bool
    if not S._ok(o):
      return NotImplemented
    a, b = self.t, _z(o)
    if z3.is_bool(a) and z3.is_bool(b):
      return S(a == b)
    return S(_num(a) == _num(b))

  def __ne__(self, o):
    r = self.__eq__(o)
    return r if r is NotImplemented else S(z3.Not(r.t))

  __hash__ = None

  def __bool__(self):
    raise TypeError('symbolic scalar used in Python control flow')

  def __repr__(self):
    return 'S(%s)' % self.t

  # array-ish protocol used by flax code on scalars
  shape = ()
  ndim = 0
  size = 1
  dtype = 'real'

  def sum(self, *a, **k): return self
  def mean(self, *a, **k): return self
  def var(self, *a, **k): return S(0)
  def astype(self, dt): return self


_UF = {}


_NUMERIC = {
    'exp': lambda x: math.exp(max(min(x, 700.0), -745.0)) if x > -1e30 else 0.0,
    'tanh': math.tanh,
    'sigmoid': lambda x: 1.0 / (1.0 + math.exp(-x)) if x > -700 else 0.0,
    'rsqrt': lambda x: 1.0 / math.sqrt(x),
    'sqrt': math.sqrt,
}


def uf(name, *args):
  if CONCRETE['on'] and name in _NUMERIC and len(args) == 1:
    try:
      return S(float(_NUMERIC[name](to_float(_z(args[0])))))
    except ValueError:
      pass
  f = _UF.get((name, len(args)))
  if f is None:
    f = z3.Function(name, *([z3.RealSort()] * (len(args) + 1)))
    _UF[(name, len(args))] = f
  return S(f(*[_num(_z(a)) for a in args]))


SQRT_AXIOMS = []


def sqrt(x):
  c = z3.simplify(_num(_z(x)))
  if z3.is_rational_value(c) and c.denominator_as_long() == 1:
    n = c.numerator_as_long()
    if n >= 0 and math.isqrt(n) ** 2 == n:
      return S(z3.RealVal(math.isqrt(n)))       # exact root: stays linear
  r = uf('sqrt', x)
  SQRT_AXIOMS.append(z3.Implies(_num(_z(x)) >= 0, z3.And(
      r.t * r.t == _num(_z(x)), r.t >= 0)))
  return r


class A:
  """n-d array of S with numpy-style broadcasting (subset)"""
  __array_priority__ = 1000

  def __init__(self, data, shape, dtype='real'):
    self.data = list(data)
    self.shape = tuple(int(s) for s in shape)
    self.dtype = dtype
    assert len(self.data) == int(np.prod(self.shape)) if self.shape else len(
        self.data) == 1

  # -- construction
  @staticmethod
  def sym(name, shape, sort='real'):
    n = int(np.prod(shape)) if shape else 1
    if CONCRETE['on']:
      vals = [_concrete_value('%s_%d' % (name, i), sort, i) for i in range(n)]
      return A([S(v) for v in vals], shape, 'int32' if sort == 'int' else sort)
    mk = {'real': z3.Real, 'int': z3.Int, 'bool': z3.Bool}[sort]
    return A([S(mk('%s_%d' % (name, i))) for i in range(n)], shape,
             'int32' if sort == 'int' else sort)

  @staticmethod
  def of(x):
    if isinstance(x, A):
      return x
    if isinstance(x, S):
      return A([x], ())
    arr = np.asarray(x)
    if arr.dtype == bool:
      return A([S(bool(v)) for v in arr.reshape(-1)], arr.shape, 'bool')
    return A([S(v.item()) for v in arr.reshape(-1)], arr.shape)

  # ---- conversion to real arrays (only for numeric constants: replay mode)
  def to_numpy(self):
    vals = [to_float(x.t) for x in self.data]
    if self.dtype == 'bool':
      return np.array([v != 0 for v in vals], bool).reshape(self.shape)
    if str(self.dtype).startswith('int'):
      return np.array(vals).astype(np.int32).reshape(self.shape)
    return np.array(vals, np.float64).reshape(self.shape)

  def __jax_array__(self):
    import jax.numpy as jnp
    a = self.to_numpy()
    return jnp.asarray(a.astype(np.float32) if a.dtype == np.float64 else a)

  def __array__(self, dtype=None, copy=None):
    a = self.to_numpy()
    return a.astype(dtype) if dtype is not None else a

  @property
  def ndim(self): return len(self.shape)

  def __len__(self): return self.shape[0]

  def __iter__(self):
    return iter(self[i] for i in range(self.shape[0]))

  @property
  def size(self): return len(self.data)

  def _idx(self):
    return list(itertools.product(*[range(s) for s in self.shape]))

  def at(self, idx):
    flat = 0
    for i, s in zip(idx, self.shape):
      flat = flat * s + i
    return self.data[flat]

  # -- elementwise
  def _bin(self, o, f):
    if isinstance(o, (list, tuple, np.ndarray)):
      o = A.of(o)
    if not isinstance(o, A):
      if not S._ok(o):
        return NotImplemented
      o = A([o if isinstance(o, S) else S(o)], ())
    shape = np.broadcast_shapes(self.shape, o.shape)
    out = []
    for idx in itertools.product(*[range(s) for s in shape]):
      a = self.at(_bidx(idx, self.shape, shape))
      b = o.at(_bidx(idx, o.shape, shape))
      out.append(f(a, b))
    return A(out, shape)

  def __add__(self, o): return self._bin(o, lambda a, b: a + b)
  def __radd__(self, o): return self._bin(o, lambda a, b: b + a)
  def __sub__(self, o): return self._bin(o, lambda a, b: a - b)
  def __rsub__(self, o): return self._bin(o, lambda a, b: b - a)
  def __mul__(self, o): return self._bin(o, lambda a, b: a * b)
  def __rmul__(self, o): return self._bin(o, lambda a, b: b * a)
  def __truediv__(self, o): return self._bin(o, lambda a, b: a / b)
  def __rtruediv__(self, o): return self._bin(o, lambda a, b: b / a)
  def __neg__(self): return A([-x for x in self.data], self.shape)

  def __matmul__(self, o):
    from vf import symnp
    return symnp.JNP.matmul(self, o)

  def __rmatmul__(self, o):
    from vf import symnp
    return symnp.JNP.matmul(o, self)
  def __ge__(self, o): return self._bin(o, lambda a, b: a >= b)
  def __gt__(self, o): return self._bin(o, lambda a, b: a > b)
  def __le__(self, o): return self._bin(o, lambda a, b: a <= b)
  def __lt__(self, o): return self._bin(o, lambda a, b: a < b)
  def __eq__(self, o): return self._bin(o, lambda a, b: a == b)
  def __ne__(self, o): return self._bin(o, lambda a, b: a != b)
  __hash__ = None

  def __pow__(self, k): return A([x ** k for x in self.data], self.shape)
  def __mod__(self, o): return self._bin(o, lambda a, b: a % b)

  # -- shape ops
  def reshape(self, *shape):
    if len(shape) == 1 and isinstance(shape[0], (tuple, list)):
      shape = tuple(shape[0])
    shape = list(shape)
    if -1 in shape:
      known = int(np.prod([s for s in shape if s != -1])) if len(shape) > 1 else 1
      shape[shape.index(-1)] = self.size // max(known, 1)
    assert int(np.prod(shape)) == self.size if shape else self.size == 1
    return A(self.data, shape, self.dtype)

  def transpose(self, *axes):
    if len(axes) == 1 and isinstance(axes[0], (tuple, list)):
      axes = tuple(axes[0])
    if not axes:
      axes = tuple(reversed(range(self.ndim)))
    shape = tuple(self.shape[a] for a in axes)
    out = []
    for idx in itertools.product(*[range(s) for s in shape]):
      src = [0] * self.ndim
      for k, a in enumerate(axes):
        src[a] = idx[k]
      out.append(self.at(src))
    return A(out, shape, self.dtype)

  @property
  def T(self): return self.transpose()

  def astype(self, dt): return A(self.data, self.shape, dt)

  def __getitem__(self, key):
    if isinstance(key, tuple) and any(isinstance(k, A) for k in key):
      return self._fancy(key)
    if isinstance(key, A):
      return self._fancy((key,))
    idx = np.arange(self.size).reshape(self.shape)[key]
    if np.ndim(idx) == 0:
      return self.data[int(idx)]
    return A([self.data[int(i)] for i in idx.reshape(-1)], idx.shape, self.dtype)

  def _fancy(self, key):
    """x[i0, i1] with (possibly symbolic) integer index vectors of equal length
    on the two leading axes -> [len, *rest]"""
    ks = [A.of(k) for k in key]
    n = ks[0].shape[0]
    nk = len(ks)
    rest = self.shape[nk:]
    out = []
    for b in range(n):
      for r in itertools.product(*[range(s_) for s_ in rest]):
        # If-chain over every combination of leading indices
        val = None
        for lead in itertools.product(*[range(self.shape[d]) for d in range(nk)]):
          v = _num(self.at(lead + r).t)
          if val is None:
            val = v
          else:
            cond = z3.And([_num(ks[d].at((b,)).t) == lead[d] for d in range(nk)])
            val = z3.If(cond, v, val)
        out.append(S(val))
    return A(out, (n,) + rest)

  # -- reductions
  def _reduce(self, f, axis=None, keepdims=False, where=None):
    if axis is None:
      axes = tuple(range(self.ndim))
    elif isinstance(axis, (int, np.integer)):
      axes = (int(axis) % max(self.ndim, 1),)
    else:
      axes = tuple(int(a) % self.ndim for a in axis)
    if where is not None:
      where = A.of(where)
    out_shape = tuple(s for i, s in enumerate(self.shape) if i not in axes)
    groups = {}
    for idx in self._idx():
      key = tuple(v for i, v in enumerate(idx) if i not in axes)
      w = None
      if where is not None:
        w = where.at(_bidx(idx, where.shape, self.shape))
      groups.setdefault(key, []).append((self.at(idx), w))
    out = [f(groups[k]) for k in itertools.product(*[range(s) for s in out_shape])]
    res = A(out, out_shape)
    if keepdims:
      ks = tuple(1 if i in axes else s for i, s in enumerate(self.shape))
      res = res.reshape(ks)
    return res if res.shape != () or keepdims else res.data[0]

  def sum(self, axis=None, keepdims=False, where=None, dtype=None):
    def f(items):
      r = S(0)
      for x, w in items:
        r = r + (x if w is None else S(z3.If(w.t, _num(x.t), z3.RealVal(0))))
      return r
    return self._reduce(f, axis, keepdims, where)

  def mean(self, axis=None, keepdims=False, where=None, dtype=None):
    if NOISY_MEAN['on']:
      # round-off model: a rounded mean is an ARBITRARY real, except that rounding is
      # sign preserving (a mean of non-negative numbers is non-negative, ...)
      def g(items):
        k = len(NOISY_MEAN['assume'])
        r = z3.Real('rmean%d' % k)
        vals = [(_num(x.t), None if w is None else w.t) for x, w in items]
        nn_ = z3.And([v >= 0 if w is None else z3.Implies(w, v >= 0) for v, w in vals])
        np_ = z3.And([v <= 0 if w is None else z3.Implies(w, v <= 0) for v, w in vals])
        NOISY_MEAN['assume'].append(z3.And(z3.Implies(nn_, r >= 0),
                                           z3.Implies(np_, r <= 0)))
        return S(r)
      return self._reduce(g, axis, keepdims, where)

    def f(items):
      tot, cnt = S(0), S(0)
      for x, w in items:
        tot = tot + (x if w is None else S(z3.If(w.t, _num(x.t), z3.RealVal(0))))
        cnt = cnt + (1 if w is None else S(z3.If(w.t, z3.RealVal(1),
                                                 z3.RealVal(0))))
      return tot / cnt
    return self._reduce(f, axis, keepdims, where)

  def var(self, axis=None, keepdims=False, where=None, dtype=None):
    m = self.mean(axis, True, where)
    d = self - m
    return (d * d).mean(axis, keepdims, where)

  def max(self, axis=None, keepdims=False):
    def f(items):
      r = items[0][0]
      for x, _ in items[1:]:
        r = S(z3.If(_num(x.t) > _num(r.t), _num(x.t), _num(r.t)))
      return r
    return self._reduce(f, axis, keepdims)

  def min(self, axis=None, keepdims=False):
    return -((-self).max(axis, keepdims))

  def argmax(self, axis=-1):
    """first index of the maximum along the last axis -> Int terms"""
    assert axis in (-1, self.ndim - 1)
    n = self.shape[-1]
    rows = self.reshape(-1, n)
    out = []
    for r in range(rows.shape[0]):
      best, bi = _num(rows.at((r, 0)).t), z3.IntVal(0)
      for j in range(1, n):
        x = _num(rows.at((r, j)).t)
        bi = z3.If(x > best, z3.IntVal(j), bi)
        best = z3.If(x > best, x, best)
      out.append(S(bi))
    res = A(out, self.shape[:-1], 'int32')
    return res if res.shape != () else res.data[0]

  def __repr__(self):
    return 'A%s%r' % (self.shape, self.data[:3])


def _bidx(idx, shape, full):
  """index into an array of `shape` broadcast to `full`"""
  off = len(full) - len(shape)
  return tuple(0 if shape[i] == 1 else idx[i + off] for i in range(len(shape)))


def _numeric_equal(pairs, tol=2e-4):
  for got, want in pairs:
    g = np.asarray(A.of(got).to_numpy() if isinstance(got, (A, S)) else got,
                   np.float64)
    w = np.asarray(A.of(want).to_numpy() if isinstance(want, (A, S)) else want,
                   np.float64)
    if g.shape != w.shape:
      return 'sat', 'shape %r vs %r' % (g.shape, w.shape), 1
    if not np.allclose(g, w, rtol=tol, atol=tol):
      return 'sat', 'numeric mismatch: got %r want %r' % (
          g.reshape(-1)[:6].tolist(), w.reshape(-1)[:6].tolist()), 1
  return 'unsat', None, 1


def model_values(model):
  out = {}
  for d in model.decls():
    if d.arity() != 0:
      continue
    v = model[d]
    try:
      if z3.is_bool(v):
        out[d.name()] = bool(z3.is_true(v))
      elif z3.is_int_value(v):
        out[d.name()] = v.as_long()
      else:
        out[d.name()] = to_float(v)
    except Exception:
      pass
  return out


def prove_equal(pairs, assumptions=(), timeout_ms=60000):
  """pairs: [(got, want)] of S / A / numbers.  Returns (status, model|None, nq)"""
  if CONCRETE['on']:
    return _numeric_equal(pairs)
  s = z3.Solver()
  s.set('timeout', timeout_ms)
  for a in assumptions:
    s.add(a)
  for a in SQRT_AXIOMS:
    s.add(a)
  diffs = []
  for got, want in pairs:
    g, w = A.of(got), A.of(want)
    if g.shape != w.shape:
      return 'sat', 'shape %r vs %r' % (g.shape, w.shape), 0
    for x, y in zip(g.data, w.data):
      if z3.is_bool(x.t) or z3.is_bool(y.t):
        diffs.append(z3.Xor(x.t if z3.is_bool(x.t) else _num(x.t) != 0,
                            y.t if z3.is_bool(y.t) else _num(y.t) != 0))
      else:
        diffs.append(_num(x.t) != _num(y.t))
  if not diffs:
    return 'unsat', None, 0
  s.add(z3.Or(diffs))
  r = s.check()
  if r == z3.sat:
    return 'sat', s.model(), 1
  return ('unsat' if r == z3.unsat else 'unknown'), None, 1
